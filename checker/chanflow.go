package main

import (
	"fmt"
	"go/token"
	"go/types"
	"os"
	"sort"

	"golang.org/x/tools/go/ssa"
)

// ---------------------------------------------------------------------------------------
// E5: channel flow.  Field-based, flow- and context-insensitive unification (Steensgaard
// style) of channel-typed values: SSA values, struct fields, local cells, map elements,
// parameters/results of resolved callees and closure bindings.  Yields, per abstract
// channel, the make / send / receive / close sites.
// ---------------------------------------------------------------------------------------

type chanOp struct {
	Kind  string // make send recv close range
	Instr ssa.Instruction
	Fn    *ssa.Function
	Val   ssa.Value // sent value (send), state index for selects in Aux
	Aux   int
}

type chanClass struct {
	ID    int
	Makes []chanOp
	Sends []chanOp
	Recvs []chanOp
	Close []chanOp
	Elem  types.Type
}

type chanFlow struct {
	p       *Program
	parent  map[any]any
	ops     map[any][]chanOp
	nodes   []any
	pointee map[any]any // representative -> node standing for its content
	fresh   int
}

type freshNode struct{ id int }

type fieldNode struct{ f *types.Var }
type elemNode struct{ of any } // element of a container node (map/slice of chans, pointer-to-chan cell)
type resultNode struct {
	fn  *ssa.Function
	idx int
}
type tupleNode struct {
	v   ssa.Value
	idx int
}

func (cf *chanFlow) find(x any) any {
	if _, ok := cf.parent[x]; !ok {
		cf.parent[x] = x
		cf.nodes = append(cf.nodes, x)
		return x
	}
	for cf.parent[x] != x {
		cf.parent[x] = cf.parent[cf.parent[x]]
		x = cf.parent[x]
	}
	return x
}

func (cf *chanFlow) union(a, b any) {
	if a == nil || b == nil {
		return
	}
	ra, rb := cf.find(a), cf.find(b)
	if ra == rb {
		return
	}
	pa, pb := cf.pointee[ra], cf.pointee[rb]
	cf.parent[ra] = rb
	delete(cf.pointee, ra)
	switch {
	case pa != nil && pb != nil:
		cf.union(pa, pb)
	case pa != nil:
		cf.pointee[cf.find(rb)] = pa
	}
}

func hasChan(t types.Type, depth int) bool {
	if depth > 4 {
		return false
	}
	switch u := t.Underlying().(type) {
	case *types.Chan:
		return true
	case *types.Pointer:
		return hasChan(u.Elem(), depth+1)
	case *types.Map:
		return hasChan(u.Elem(), depth+1)
	case *types.Slice:
		return hasChan(u.Elem(), depth+1)
	case *types.Tuple:
		for i := 0; i < u.Len(); i++ {
			if hasChan(u.At(i).Type(), depth+1) {
				return true
			}
		}
	}
	return false
}

// node returns the unification node standing for the value v.
func (cf *chanFlow) node(v ssa.Value) any {
	switch x := v.(type) {
	case *ssa.Const:
		return nil
	case *ssa.FieldAddr:
		return elemOf(fieldNode{fieldOfAddr(x)}, cf) // address of the field: its content is the field node
	case *ssa.Field:
		return fieldNode{x.X.Type().Underlying().(*types.Struct).Field(x.Field)}
	case *ssa.ChangeType:
		return cf.node(x.X)
	case *ssa.Convert:
		return cf.node(x.X)
	case *ssa.MakeInterface:
		return cf.node(x.X)
	}
	return v
}

// elemOf returns a node whose *content* is n (for address-like values): loading from it yields n.
type addrNode struct{ of any }

func elemOf(n any, cf *chanFlow) any { return addrNode{n} }

// content: the node obtained by dereferencing / indexing / looking up node n.
func (cf *chanFlow) content(n any) any {
	if a, ok := n.(addrNode); ok {
		return a.of
	}
	if n == nil {
		return nil
	}
	r := cf.find(n)
	if p, ok := cf.pointee[r]; ok {
		return p
	}
	cf.fresh++
	p := freshNode{cf.fresh}
	cf.pointee[r] = p
	return p
}

func buildChanFlow(p *Program) *chanFlow {
	cf := &chanFlow{p: p, parent: map[any]any{}, ops: map[any][]chanOp{}, pointee: map[any]any{}}
	cg := p.CallGraph()
	bound := map[ssa.CallInstruction]bool{}
	for round := 0; round < 1; round++ {
		for _, fn := range p.Funcs {
			for _, b := range fn.Blocks {
				for _, in := range b.Instrs {
					cf.flow(fn, in)
				}
			}
			// dynamic / interface calls through the call graph
			if n := cg.Nodes[fn]; n != nil {
				for _, e := range n.Out {
					if os.Getenv("HIDI_DEBUG") == "cg" && e.Site != nil && e.Site.Common().IsInvoke() {
						fmt.Fprintln(os.Stderr, "cg", fn, "->", e.Callee.Func, e.Callee.Func.Synthetic, len(e.Callee.Func.Blocks), p.OwnedFunc(e.Callee.Func))
					}
					if e.Site == nil || e.Callee.Func.Blocks == nil || !p.OwnedFunc(e.Callee.Func) {
						continue
					}
					// a call through an interface reaches the method through a synthetic wrapper (generic instantiation,
					// pointer-receiver wrapper): bind to the method it forwards to
					cf.bindCall(e.Site, unwrapSynthetic(e.Callee.Func, 0))
					bound[e.Site] = true
				}
			}
			// interface calls for which the type-propagation graph has no repository callee (a generic type behind a narrow
			// interface): the class-hierarchy callees
			if p.chaCg != nil {
				if n := p.chaCg.Nodes[fn]; n != nil {
					for _, e := range n.Out {
						if e.Site == nil || bound[e.Site] || !e.Site.Common().IsInvoke() || e.Callee.Func.Blocks == nil || !p.OwnedFunc(e.Callee.Func) {
							continue
						}
						cf.bindCall(e.Site, unwrapSynthetic(e.Callee.Func, 0))
					}
				}
			}
		}
	}
	// operations
	for _, fn := range p.Funcs {
		for _, b := range fn.Blocks {
			for _, in := range b.Instrs {
				switch x := in.(type) {
				case *ssa.MakeChan:
					cf.addOp(x, chanOp{"make", in, fn, nil, 0})
				case *ssa.Send:
					cf.addOp(x.Chan, chanOp{"send", in, fn, x.X, 0})
				case *ssa.UnOp:
					if x.Op == token.ARROW {
						cf.addOp(x.X, chanOp{"recv", in, fn, nil, 0})
					}
				case *ssa.Select:
					for i, s := range x.States {
						if s.Dir == types.SendOnly {
							cf.addOp(s.Chan, chanOp{"send", in, fn, s.Send, i})
						} else {
							cf.addOp(s.Chan, chanOp{"recv", in, fn, nil, i})
						}
					}
				case *ssa.Range:
					if _, ok := x.X.Type().Underlying().(*types.Chan); ok {
						cf.addOp(x.X, chanOp{"recv", in, fn, nil, 0})
					}
				case *ssa.Call:
					if bi, ok := x.Call.Value.(*ssa.Builtin); ok && bi.Name() == "close" {
						cf.addOp(x.Call.Args[0], chanOp{"close", in, fn, nil, 0})
					}
				case *ssa.Defer:
					if bi, ok := x.Call.Value.(*ssa.Builtin); ok && bi.Name() == "close" {
						cf.addOp(x.Call.Args[0], chanOp{"close", in, fn, nil, 0})
					}
				}
			}
		}
	}
	return cf
}

func (cf *chanFlow) addOp(ch ssa.Value, op chanOp) {
	n := cf.node(ch)
	if n == nil {
		return
	}
	if a, ok := n.(addrNode); ok {
		n = a
	}
	r := cf.find(n)
	cf.ops[r] = append(cf.ops[r], op)
}

func (cf *chanFlow) bindCall(site ssa.CallInstruction, callee *ssa.Function) {
	cc := site.Common()
	args := cc.Args
	params := callee.Params
	if cc.IsInvoke() {
		if len(params) > 0 {
			params = params[1:]
		}
	} else if cc.StaticCallee() == nil {
		// dynamic call of a closure/func value: bindings are unified at MakeClosure
	}
	if len(params) == len(args)+1 && callee.Signature.Recv() != nil {
		params = params[1:]
	}
	for i, a := range args {
		if i < len(params) && hasChan(a.Type(), 0) {
			cf.union(cf.node(a), params[i])
		}
	}
	if v, ok := site.(ssa.Value); ok && hasChan(v.Type(), 0) {
		res := callee.Signature.Results()
		if res.Len() == 1 {
			cf.union(v, resultNode{callee, 0})
		} else {
			for i := 0; i < res.Len(); i++ {
				cf.union(tupleNode{v, i}, resultNode{callee, i})
			}
		}
	}
}

func (cf *chanFlow) flow(fn *ssa.Function, in ssa.Instruction) {
	switch x := in.(type) {
	case *ssa.Phi:
		if hasChan(x.Type(), 0) {
			for _, e := range x.Edges {
				cf.union(x, cf.node(e))
			}
		}
	case *ssa.Store:
		if hasChan(x.Val.Type(), 0) {
			cf.union(cf.content(cf.node(x.Addr)), cf.node(x.Val))
		}
	case *ssa.UnOp:
		if x.Op == token.MUL && hasChan(x.Type(), 0) {
			cf.union(x, cf.content(cf.node(x.X)))
		}
		if x.Op == token.ARROW && hasChan(x.Type(), 0) {
			// receiving a channel from a channel
			if x.CommaOk {
				cf.union(tupleNode{x, 0}, cf.content(cf.node(x.X)))
			} else {
				cf.union(x, cf.content(cf.node(x.X)))
			}
		}
	case *ssa.MapUpdate:
		if hasChan(x.Value.Type(), 0) {
			cf.union(cf.content(cf.node(x.Map)), cf.node(x.Value))
		}
	case *ssa.Lookup:
		if hasChan(x.Type(), 0) {
			if x.CommaOk {
				cf.union(tupleNode{x, 0}, cf.content(cf.node(x.X)))
			} else {
				cf.union(x, cf.content(cf.node(x.X)))
			}
		}
	case *ssa.IndexAddr:
		if hasChan(x.Type(), 0) {
			cf.union(x, addrNode{cf.content(cf.node(x.X))})
		}
	case *ssa.Index:
		if hasChan(x.Type(), 0) {
			cf.union(x, cf.content(cf.node(x.X)))
		}
	case *ssa.Next:
		// range over map/chan: element flows out through the tuple
		if r, ok := x.Iter.(*ssa.Range); ok && hasChan(r.X.Type(), 0) {
			if _, isMap := r.X.Type().Underlying().(*types.Map); isMap {
				cf.union(tupleNode{x, 2}, cf.content(cf.node(r.X)))
			}
		}
	case *ssa.Extract:
		if hasChan(x.Type(), 0) {
			cf.union(x, tupleNode{x.Tuple, x.Index})
		}
	case *ssa.MakeClosure:
		f := x.Fn.(*ssa.Function)
		for i, bnd := range x.Bindings {
			if i < len(f.FreeVars) && hasChan(bnd.Type(), 0) {
				cf.union(cf.node(bnd), f.FreeVars[i])
			}
		}
	case *ssa.Return:
		for i, r := range x.Results {
			if hasChan(r.Type(), 0) {
				cf.union(resultNode{fn, i}, cf.node(r))
			}
		}
	case ssa.CallInstruction:
		cc := x.Common()
		if callee := cc.StaticCallee(); callee != nil && callee.Blocks != nil && cf.p.OwnedFunc(callee) {
			cf.bindCall(x, callee)
		} else if f := closureOf(cc.Value); f != nil && !cc.IsInvoke() {
			cf.bindCall(x, f)
		}
	}
}

// Classes returns the abstract channels that have a make site in owned code.
func (cf *chanFlow) Classes() []*chanClass {
	byRoot := map[any]*chanClass{}
	var roots []any
	for r0, ops := range cf.ops {
		r := cf.find(r0)
		c := byRoot[r]
		if c == nil {
			c = &chanClass{}
			byRoot[r] = c
			roots = append(roots, r)
		}
		for _, op := range ops {
			switch op.Kind {
			case "make":
				c.Makes = append(c.Makes, op)
				c.Elem = op.Instr.(*ssa.MakeChan).Type().Underlying().(*types.Chan).Elem()
			case "send":
				c.Sends = append(c.Sends, op)
			case "recv":
				c.Recvs = append(c.Recvs, op)
			case "close":
				c.Close = append(c.Close, op)
			}
		}
	}
	var out []*chanClass
	for _, r := range roots {
		out = append(out, byRoot[r])
	}
	sort.Slice(out, func(i, j int) bool { return classPos(out[i]) < classPos(out[j]) })
	for i, c := range out {
		c.ID = i
	}
	return out
}

func classPos(c *chanClass) token.Pos {
	p := token.Pos(1 << 40)
	for _, ops := range [][]chanOp{c.Makes, c.Sends, c.Recvs, c.Close} {
		for _, o := range ops {
			if o.Instr.Pos().IsValid() && o.Instr.Pos() < p {
				p = o.Instr.Pos()
			}
		}
	}
	return p
}

func (c *chanClass) describe(p *Program) string {
	fns := func(ops []chanOp) []string {
		m := map[string]bool{}
		for _, o := range ops {
			m[shortFn(o.Fn)] = true
		}
		var out []string
		for k := range m {
			out = append(out, k)
		}
		sort.Strings(out)
		return out
	}
	mk := "?"
	if len(c.Makes) > 0 {
		mk = p.Pos(c.Makes[0].Instr.Pos())
	}
	return fmt.Sprintf("made@%s senders=%v receivers=%v closers=%v", mk, fns(c.Sends), fns(c.Recvs), fns(c.Close))
}

// unwrapSynthetic: the repository function a compiler-made wrapper forwards to (the wrapper itself if there is none).
func unwrapSynthetic(f *ssa.Function, depth int) *ssa.Function {
	if f == nil || f.Synthetic == "" || depth > 3 {
		return f
	}
	var target *ssa.Function
	for _, b := range f.Blocks {
		for _, in := range b.Instrs {
			if call, ok := in.(*ssa.Call); ok {
				if callee := call.Call.StaticCallee(); callee != nil && len(callee.Blocks) > 0 {
					if target != nil && target != callee {
						return f
					}
					target = callee
				}
			}
		}
	}
	if target == nil {
		return f
	}
	return unwrapSynthetic(target, depth+1)
}
