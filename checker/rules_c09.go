package main

import (
	"fmt"
	"go/constant"
	"go/token"
	"go/types"
	"regexp/syntax"
	"sort"
	"strings"

	"golang.org/x/tools/go/ssa"
)

func init() {
	registry["C09"] = checkC09
	controlRegistry["C09"] = controlsC09
}

// parseEntryPoints: the functions that turn file content into a configuration.
func parseEntryPoints(c *Ctx) []*ssa.Function {
	var out []*ssa.Function
	// (the loader that walks the four directories belongs to "reading a device configuration": a hang or panic there is one too)
	for _, spec := range [][2]string{{pkgConfig, "ParseData"}, {pkgConfig, "readDeviceConfig"}, {pkgMain, "LoadHIDIConfig"}, {pkgConfig, "LoadDeviceConfigs"}} {
		fn := c.P.Func(spec[0], "", spec[1])
		if c.Require(fn != nil, "R9.0", "anchor:"+spec[1], "entry point "+spec[1]+" not found") {
			out = append(out, fn)
		}
	}
	return out
}

// parseReachable: HIDI-owned functions reachable from the entry points by static calls and closures.
func parseReachable(p *Program, roots []*ssa.Function) ([]*ssa.Function, []ssa.Instruction) {
	seen := map[*ssa.Function]bool{}
	var dyn []ssa.Instruction
	var visit func(fn *ssa.Function)
	visit = func(fn *ssa.Function) {
		if fn == nil || seen[fn] || fn.Blocks == nil || !p.OwnedFunc(fn) {
			return
		}
		seen[fn] = true
		for _, af := range fn.AnonFuncs {
			visit(af)
		}
		for _, b := range fn.Blocks {
			for _, in := range b.Instrs {
				ci, ok := in.(ssa.CallInstruction)
				if !ok {
					continue
				}
				cc := ci.Common()
				if cc.IsInvoke() {
					continue
				}
				if _, isB := cc.Value.(*ssa.Builtin); isB {
					continue
				}
				if callee := cc.StaticCallee(); callee != nil {
					visit(callee)
					continue
				}
				// calling a local closure value
				if mc := closureOf(cc.Value); mc != nil {
					visit(mc)
					continue
				}
				// a callback the enclosing helper was handed (every static caller's argument), one of several local
				// function values, or an entry of a read-only table
				if ts, ok := paramFuncTargets(p, cc.Value); ok {
					for _, t := range ts {
						visit(t)
					}
					continue
				}
				if ts, ok := localFuncTargets(cc.Value); ok {
					for _, t := range ts {
						visit(t)
					}
					continue
				}
				if ts := roTableTargets(p, cc.Value); len(ts) > 0 {
					for _, t := range ts {
						visit(t)
					}
					continue
				}
				dyn = append(dyn, in)
			}
		}
	}
	for _, r := range roots {
		visit(r)
	}
	var out []*ssa.Function
	for f := range seen {
		out = append(out, f)
	}
	sort.Slice(out, func(i, j int) bool { return out[i].String() < out[j].String() })
	return out, dyn
}

func closureOf(v ssa.Value) *ssa.Function {
	switch x := v.(type) {
	case *ssa.MakeClosure:
		return x.Fn.(*ssa.Function)
	case *ssa.Function:
		return x
	case *ssa.UnOp:
		// load of a local holding a closure
		if a, ok := x.X.(*ssa.Alloc); ok {
			if w := wholeStore(a); w != nil {
				return closureOf(w)
			}
		}
		// load of a captured variable holding a closure (a closure calling a sibling closure)
		if fv, ok := x.X.(*ssa.FreeVar); ok {
			if a, ok := freeVarBinding(fv).(*ssa.Alloc); ok {
				if w := wholeStore(a); w != nil {
					return closureOf(w)
				}
			}
		}
	case *ssa.FreeVar:
		if b := freeVarBinding(x); b != nil {
			return closureOf(b)
		}
	}
	return nil
}

// freeVarBinding: the value bound to fv by the (single) MakeClosure that creates fv's function.
func freeVarBinding(fv *ssa.FreeVar) ssa.Value {
	fn := fv.Parent()
	parent := fn.Parent()
	if parent == nil {
		return nil
	}
	idx := -1
	for i, v := range fn.FreeVars {
		if v == fv {
			idx = i
		}
	}
	var found ssa.Value
	n := 0
	for _, b := range parent.Blocks {
		for _, in := range b.Instrs {
			if mc, ok := in.(*ssa.MakeClosure); ok && mc.Fn == ssa.Value(fn) && idx >= 0 && idx < len(mc.Bindings) {
				found = mc.Bindings[idx]
				n++
			}
		}
	}
	if n != 1 {
		return nil
	}
	return found
}

func checkC09(c *Ctx) {
	roots := parseEntryPoints(c)
	if len(roots) != 4 {
		return
	}
	fns, dyn := parseReachable(c.P, roots)
	for _, f := range fns {
		c.Fn(shortFn(f))
	}
	for _, d := range dyn {
		c.Undec("R9.0", "dynamic-call@"+shortFn(d.Parent()), c.P.Pos(d.Pos()), "unresolved dynamic call in configuration parsing code")
	}
	c.Check(len(fns) >= 5, "R9.0", "reachable-set", "-", fmt.Sprintf("%d HIDI functions reachable from ParseData/readDeviceConfig/LoadHIDIConfig", len(fns)), "reachable set too small: anchors lost")
	inventoryMayPanic(c, c.P, fns, "R9")
	c.importRules(noSharedStateRules, []string{"R16.5"}, "R9.10") // loading is a function of the files: no package-level state written at run time
	ruleDecoderGuard(c, fns)
	ruleTermination(c, fns)
	if lh := c.P.Func(pkgMain, "", "LoadHIDIConfig"); lh != nil {
		ruleLogBound(c, "R9.11", lh) // a log write is a send into a fixed-size channel: before the consumer exists their number must not be file-driven
	}
	// (errors are returned by the functions that turn ONE file into a configuration; the directory loader above them reports
	// a file's error and goes on with the next file - that is C12's isolation)
	var loaderOnly = map[*ssa.Function]bool{}
	if ld := c.P.Func(pkgConfig, "", "LoadDeviceConfigs"); ld != nil {
		perFile, _ := parseReachable(c.P, roots[:3])
		inPerFile := map[*ssa.Function]bool{}
		for _, f := range perFile {
			inPerFile[f] = true
		}
		for _, f := range fns {
			if !inPerFile[f] {
				loaderOnly[f] = true
			}
		}
	}
	var perFileFns []*ssa.Function
	for _, f := range fns {
		if !loaderOnly[f] {
			perFileFns = append(perFileFns, f)
		}
	}
	ruleErrorsReturned(c, perFileFns)
	c.MinCount("R9.1", 15)
	c.MinCount("R9.2", 2)
	c.MinCount("R9.3", 6)
	c.MinCount("R9.4", 8)
	c.MinCount("R9.9", 2)
	c.MinCount("R9.7", 8)
	c.MinCount("R9.8", 10)
	c.DecidedClause("complete inventory of may-panic instructions in the HIDI-owned parse code reachable from ParseData / readDeviceConfig / LoadHIDIConfig: every dereference of an optional (pointer-typed) decoded field is dominated by a nil test of the same access path, every integer division has a divisor proven non-zero, every index is within a dominating length fact, every map store targets a made map, no explicit panic / unchecked type assertion / close is reachable; every loop is a range or counted loop and there is no recursion; every error result is tested and its failure edge cannot reach a success return")
	c.DecidedClause("the third-party TOML decoder is only called from functions that defer a recover() turning a decoder panic into their error result (go-toml v2.0.3 does panic on some well-formed, ill-typed input)")
	c.UndecidedClause("that the third-party decoder (pelletier/go-toml v2.0.3), strconv and regexp terminate on arbitrary bytes (hangs inside them are not analysed); panics inside them are contained by the recover guard")
	c.Assumption("toml.Decoder.Decode / toml.Unmarshal terminate for every input")
}

// inventoryMayPanic discharges every instruction that can raise a run-time panic.
func inventoryMayPanic(c *Ctx, p *Program, fns []*ssa.Function, prefix string) (violations int) {
	pf := &parserFacts{c: c, p: p, views: map[*ssa.Function]*FnView{}, lits: map[string][]*ssa.Alloc{},
		fieldInv: map[*types.Var]rng{}, structInv: map[string]rng{}, elemInv: map[*types.Var][]rng{}, used: map[string]bool{}}
	report := func(ok bool, rule, key, pos, okFact, badFact string) {
		if c != nil {
			c.Check(ok, rule, key, pos, okFact, badFact)
		}
		if !ok {
			violations++
		}
	}
	for _, fn := range fns {
		vw := pf.view(fn)
		ord := map[string]int{}
		k := func(kind, desc string) string {
			s := fmt.Sprintf("%s/%s(%s)", shortFn(fn), kind, desc)
			ord[s]++
			if ord[s] > 1 {
				return fmt.Sprintf("%s#%d", s, ord[s])
			}
			return s
		}
		for _, b := range fn.Blocks {
			for _, in := range b.Instrs {
				pos := p.Pos(in.Pos())
				switch x := in.(type) {
				case *ssa.UnOp:
					if x.Op != token.MUL {
						continue
					}
					// dereference of a pointer VALUE that was itself read from memory / a struct field
					if !pointerMayBeNil(x.X) {
						continue
					}
					pt := vw.Term(x.X)
					guarded := false
					for _, a := range vw.GuardsAt(b) {
						op, l, r, ok := normAtom(a)
						if !ok || op != "!=" {
							continue
						}
						if l.IsNil() {
							l, r = r, l
						}
						if r.IsNil() && l.String() == pt.String() {
							guarded = true
						}
					}
					report(guarded, prefix+".1", k("deref", accessName(pt)), pos, "dominated by `"+pt.String()+" != nil`",
						"`*"+pt.String()+"` is dereferenced where the dominating conditions do not include `"+pt.String()+" != nil`: the field is optional in the file, a configuration without it makes the parser panic with a nil pointer dereference")
				case *ssa.BinOp:
					if (x.Op != token.QUO && x.Op != token.REM) || !isIntegerType(x.Type()) {
						continue
					}
					if kc, ok := x.Y.(*ssa.Const); ok {
						report(kc.Value != nil && constant.Sign(kc.Value) != 0, prefix+".2", k("div", "const"), pos, "constant non-zero divisor", "division by the constant zero")
						continue
					}
					okLo, whyLo := pf.proveRange(x.Y, b, 1, 1<<62, 0)
					okHi, _ := pf.proveRange(x.Y, b, -(1 << 62), -1, 0)
					if !okLo && !okHi {
						// path-sensitive fallback: on every path of an entry point that reaches this division, the conditions taken
						// before it bound the divisor away from zero (the check may sit in a loop over a table of the values, the
						// division in a conversion helper)
						if c == nil {
							// (control programs have no entry points)
						} else if why, ok := divisorNonZeroOnPaths(p, parseEntryPoints(c), x); ok {
							okLo, whyLo = true, why
						}
					}
					dt := vw.Term(x.Y)
					report(okLo || okHi, prefix+".2", k("div", accessName(dt)), pos, "divisor proven non-zero: "+whyLo,
						"integer division by `"+dt.String()+"` which is not proven non-zero ("+whyLo+"): a file without that value (or with 0) makes the program panic with an integer divide by zero")
				case *ssa.IndexAddr:
					ok, why := indexInRange(pf, vw, x.X, x.Index, b)
					if ok && why == "" {
						continue
					}
					report(ok, prefix+".3", k("index", accessName(vw.Term(x.X))), pos, why, "index not proven within bounds: "+why)
				case *ssa.Index:
					ok, why := indexInRange(pf, vw, x.X, x.Index, b)
					if ok && why == "" {
						continue
					}
					report(ok, prefix+".3", k("index", accessName(vw.Term(x.X))), pos, why, "index not proven within bounds: "+why)
				case *ssa.Lookup:
					if _, isStr := x.X.Type().Underlying().(*types.Basic); isStr {
						ok, why := indexInRange(pf, vw, x.X, x.Index, b)
						report(ok, prefix+".3", k("strindex", accessName(vw.Term(x.X))), pos, why, "string index not proven within bounds: "+why)
					}
				case *ssa.Slice:
					if x.Low == nil && x.High == nil && x.Max == nil {
						continue // s[:] of an array: always fine
					}
					if _, isArr := deref(x.X.Type()).Underlying().(*types.Array); isArr {
						if isConstOrNil(x.Low) && isConstOrNil(x.High) {
							continue // checked by the compiler
						}
					}
					if isConstOrNil(x.Low) && isConstOrNil(x.High) && x.Max == nil {
						// s[a:b] with constant bounds needs len(s) >= max(a, b)
						need := int64(0)
						for _, bnd := range []ssa.Value{x.Low, x.High} {
							if kc, ok := bnd.(*ssa.Const); ok && kc.Int64() > need {
								need = kc.Int64()
							}
						}
						xt := vw.Term(x.X)
						lenKey := (&Term{Op: "len", Args: []*Term{xt}}).String()
						lb := boundsFrom(vw.GuardsAt(b), lenKey, bound{lo: 0, hasLo: true})
						if n := affixLen(vw.GuardsAt(b), xt); n > lb.lo {
							lb.lo = n // strings.HasPrefix(s, "x") holds here: len(s) >= len("x")
						}
						ok := lb.hasLo && lb.lo >= need
						report(ok, prefix+".3", k("slice", accessName(xt)), pos, fmt.Sprintf("len >= %d under the dominating conditions", lb.lo),
							fmt.Sprintf("slice expression needs len(%s) >= %d but it is only known to be in %s", xt, need, lb))
						continue
					}
					report(false, prefix+".3", k("slice", accessName(vw.Term(x.X))), pos, "", "slice expression with non-constant bounds in parsing code: bounds not proven")
				case *ssa.MapUpdate:
					ok, why := mapIsMade(x.Map, map[ssa.Value]bool{})
					report(ok, prefix+".4", k("mapstore", accessName(vw.Term(x.Map))), pos, why, "store into a map that is not proven to be made: "+why)
				case *ssa.Panic:
					report(false, prefix+".5", k("panic", "explicit"), pos, "", "an explicit panic is reachable from configuration parsing")
				case *ssa.TypeAssert:
					report(x.CommaOk, prefix+".6", k("typeassert", x.AssertedType.String()), pos, "comma-ok form", "type assertion without comma-ok can panic")
				case *ssa.MakeSlice:
					if kc, ok := x.Len.(*ssa.Const); ok && kc.Value != nil && constant.Sign(kc.Value) >= 0 {
						continue
					}
					okl, why := pf.proveRange(x.Len, b, 0, 1<<40, 0)
					report(okl, prefix+".6", k("makeslice", "len"), pos, why, "make with a length not proven non-negative: "+why)
				case *ssa.Call:
					if bi, ok := x.Call.Value.(*ssa.Builtin); ok {
						if bi.Name() == "close" {
							report(false, prefix+".6", k("close", "chan"), pos, "", "close() in parsing code can panic on a closed/nil channel")
						}
						if bi.Name() == "panic" {
							report(false, prefix+".5", k("panic", "builtin"), pos, "", "explicit panic")
						}
						continue
					}
					func() {
						// a method of a library type called on a pointer that may be nil (a local filled in by errors.As, an
						// optional field): the library dereferences its receiver
						callee := x.Call.StaticCallee()
						if callee == nil || x.Call.IsInvoke() || callee.Signature.Recv() == nil || len(x.Call.Args) == 0 || p.OwnedFunc(callee) {
							return
						}
						if _, isPtr := callee.Signature.Recv().Type().Underlying().(*types.Pointer); !isPtr {
							return
						}
						recv := x.Call.Args[0]
						if !pointerMayBeNil(recv) {
							return
						}
						if ld, ok := recv.(*ssa.UnOp); ok {
							if _, isGlobal := ld.X.(*ssa.Global); isGlobal {
								return // package-level objects (compiled patterns) are set up by the initialiser
							}
						}
						pt := vw.Term(recv)
						guarded := false
						for _, a := range vw.GuardsAt(b) {
							if op, l, r, ok := normAtom(a); ok && op == "!=" {
								if l.IsNil() {
									l, r = r, l
								}
								if r.IsNil() && l.String() == pt.String() {
									guarded = true
								}
							}
							// `if errors.As(err, &local)`: the target was filled in
							if a.Taken && a.Instr != nil {
								if ac, ok := a.Instr.Cond.(*ssa.Call); ok {
									if f := ac.Call.StaticCallee(); f != nil && f.Pkg != nil && f.Pkg.Pkg.Path() == "errors" && f.Name() == "As" && len(ac.Call.Args) == 2 {
										tgt := ac.Call.Args[1]
										if mi, ok := tgt.(*ssa.MakeInterface); ok {
											tgt = mi.X
										}
										if ld, ok := recv.(*ssa.UnOp); ok && ld.X == tgt {
											guarded = true
										}
									}
								}
							}
						}
						report(guarded, prefix+".1", k("nilrecv", accessName(pt)+"."+callee.Name()), pos, "the receiver is known to be set (`!= nil` or a successful errors.As) where the method is called",
							"`"+pt.String()+"."+callee.Name()+"()` is called on a pointer that is not known to be non-nil there (the result of errors.As is not tested, or the field is optional): the library dereferences its receiver, a plain decode error makes the parser panic")
					}()
					callee := x.Call.StaticCallee()
					if callee == nil {
						continue
					}
					name := callee.String()
					switch {
					case strings.HasSuffix(name, "StringToNoteUnsafe"):
						report(false, prefix+".5", k("call", "StringToNoteUnsafe"), pos, "", "a helper documented to panic is used while parsing")
					case strings.HasSuffix(name, "regexp.MustCompile"), strings.HasSuffix(name, "template.Must"):
						if _, isC := x.Call.Args[0].(*ssa.Const); !isC {
							report(false, prefix+".5", k("call", "MustCompile"), pos, "", "MustCompile on a non-constant pattern can panic")
						}
					}
				}
			}
		}
	}
	return
}

func isConstOrNil(v ssa.Value) bool {
	if v == nil {
		return true
	}
	_, ok := v.(*ssa.Const)
	return ok
}

// accessName gives a short, line-independent name of an access path for obligation keys.
func accessName(t *Term) string {
	s := t.String()
	// drop allocation/instruction numbers
	var b strings.Builder
	for i := 0; i < len(s); i++ {
		ch := s[i]
		if ch == ':' {
			// skip "alloc:Fn.tNN" style ids up to next '.' or ']' or ')'
			j := i + 1
			for j < len(s) && s[j] != '.' {
				j++
			}
			k := j + 1
			for k < len(s) && (s[k] == 't' || (s[k] >= '0' && s[k] <= '9')) {
				k++
			}
			if j < len(s) && k > j+1 {
				i = k - 1
				continue
			}
		}
		b.WriteByte(ch)
	}
	r := b.String()
	if len(r) > 60 {
		r = r[len(r)-60:]
	}
	return r
}

// pointerMayBeNil: v is a pointer value obtained from memory / a struct field / a call (not an address computation).
func pointerMayBeNil(v ssa.Value) bool {
	if _, ok := v.Type().Underlying().(*types.Pointer); !ok {
		return false
	}
	switch x := v.(type) {
	case *ssa.Alloc, *ssa.FieldAddr, *ssa.IndexAddr, *ssa.Global, *ssa.Parameter, *ssa.FreeVar:
		return false
	case *ssa.UnOp:
		if x.Op == token.MUL {
			// a pointer loaded from a field/local: may be nil unless the local is a closure cell or is only assigned addresses
			if a, ok := x.X.(*ssa.Alloc); ok {
				if w := wholeStore(a); w != nil {
					return pointerMayBeNil(w)
				}
			}
			if _, ok := x.X.(*ssa.FreeVar); ok {
				return false // captured variable cell (its value is not a decoded optional)
			}
			return true
		}
	case *ssa.Field:
		return true
	case *ssa.Extract, *ssa.Lookup, *ssa.Phi:
		return true
	case *ssa.Call:
		return false // constructors (toml.NewDecoder, regexp...) are trusted to return non-nil
	}
	return false
}

func mapIsMade(v ssa.Value, seen map[ssa.Value]bool) (bool, string) {
	if seen[v] {
		return true, "cycle"
	}
	seen[v] = true
	switch x := v.(type) {
	case *ssa.MakeMap:
		return true, "created with make on every path"
	case *ssa.Phi:
		for _, e := range x.Edges {
			if ok, why := mapIsMade(e, seen); !ok {
				return false, why
			}
		}
		return true, "all incoming values are made maps"
	case *ssa.UnOp:
		if a, ok := x.X.(*ssa.Alloc); ok {
			// local variable: every store into it must be a made map
			n := 0
			for _, r := range *a.Referrers() {
				if st, ok := r.(*ssa.Store); ok && st.Addr == a {
					n++
					if ok, why := mapIsMade(st.Val, seen); !ok {
						return false, why
					}
				}
			}
			if n > 0 {
				return true, "local variable only assigned made maps"
			}
		}
		if fv, ok := x.X.(*ssa.FreeVar); ok {
			return true, "captured map variable " + fv.Name() + " (made by the enclosing function; checked there)"
		}
		// a map-typed field of a row the function was handed (receiver or parameter, possibly captured): as for a map
		// parameter, the callers build the rows with made maps (LoadDeviceConfigs creates all four, R12.2)
		if fa, ok := x.X.(*ssa.FieldAddr); ok {
			base := fa.X
			if ld, isLd := base.(*ssa.UnOp); isLd && ld.Op == token.MUL {
				base = ld.X
			}
			switch base.(type) {
			case *ssa.Parameter, *ssa.FreeVar:
				return true, "map field of a row handed to the function (rows are built with made maps: R12.2)"
			}
		}
		// a map-typed field of a local struct that is built in place (`km := T{M: make(..)}; km.M[k] = v`): every store
		// into that field of that variable is a made map, at least one of them dominates the load, and the variable's
		// address goes nowhere but into field accesses and whole loads
		if fa, ok := x.X.(*ssa.FieldAddr); ok {
			if a, ok := fa.X.(*ssa.Alloc); ok && a.Referrers() != nil {
				n, dom := 0, false
				for _, r := range *a.Referrers() {
					switch y := r.(type) {
					case *ssa.FieldAddr:
						if y.Field != fa.Field || y.Referrers() == nil {
							continue
						}
						for _, rr := range *y.Referrers() {
							switch z := rr.(type) {
							case *ssa.Store:
								if z.Addr != y {
									return false, "the field's address is stored somewhere"
								}
								n++
								if ok, why := mapIsMade(z.Val, seen); !ok {
									return false, why
								}
								if z.Block().Dominates(x.Block()) {
									dom = true
								}
							case *ssa.UnOp, *ssa.DebugRef:
							default:
								return false, "the field's address is used for more than loads and stores"
							}
						}
					case *ssa.UnOp, *ssa.DebugRef:
					case *ssa.Store:
						if y.Addr == a {
							return false, "the struct variable is assigned as a whole"
						}
						return false, "the struct variable's address is stored somewhere"
					default:
						return false, "the struct variable's address escapes"
					}
				}
				if n > 0 && dom {
					return true, "field of a local struct built in place, only assigned made maps"
				}
			}
		}
	case *ssa.FreeVar:
		return true, "captured map (made by the enclosing function)"
	case *ssa.Parameter:
		return true, "map parameter (callers pass made maps: LoadDeviceConfigs creates all four, R12.2)"
	}
	return false, "origin " + v.String() + " is not a make"
}

// indexInRange: (true,"") means "not a checked kind" (array with constant index).
func indexInRange(pf *parserFacts, vw *FnView, x, idx ssa.Value, b *ssa.BasicBlock) (bool, string) {
	// arrays with constant index are checked by the compiler
	if at, ok := deref(x.Type()).Underlying().(*types.Array); ok {
		if k, isK := idx.(*ssa.Const); isK {
			if k.Int64() >= 0 && k.Int64() < at.Len() {
				return true, ""
			}
			return false, "constant index outside the array"
		}
		// the index of a (rotated) range loop over the array: idx < N dominates, idx counts up from 0
		it := vw.Term(idx)
		for _, a := range vw.GuardsAt(b) {
			if op, l, r, ok := normAtom(a); ok && op == "<" && l.String() == it.String() {
				if k, isK := r.IsIntConst(); isK && k <= at.Len() && nonNegativeIndex(idx) {
					return true, fmt.Sprintf("range index below %d, the length of the array", at.Len())
				}
			}
		}
		ok, why := pf.proveRange(idx, b, 0, at.Len()-1, 0)
		return ok, why
	}
	xt := vw.Term(x)
	lenKey := (&Term{Op: "len", Args: []*Term{xt}}).String()
	atoms := vw.GuardsAt(b)
	lb := vw.BoundsAt(b, lenKey, bound{lo: 0, hasLo: true})
	// regexp submatch results are nil (no match) or have length groups+1
	if n, ok := submatchLen(pf.p, x); ok {
		nonNil := false
		for _, a := range atoms {
			if op, l, r, ok := normAtom(a); ok && op == "!=" && (l.String() == xt.String() && r.IsNil() || r.String() == xt.String() && l.IsNil()) {
				nonNil = true
			}
		}
		if lb.hasLo && lb.lo >= 1 || lb.excluded[0] || nonNil {
			lb.lo, lb.hasLo = int64(n), true
		}
	}
	if k, isK := idx.(*ssa.Const); isK {
		if lb.hasLo && k.Int64() >= 0 && k.Int64() < lb.lo {
			return true, fmt.Sprintf("len(%s) >= %d under the dominating conditions, index %d", accessName(xt), lb.lo, k.Int64())
		}
		return false, fmt.Sprintf("index %d but len(%s) is only known to be in %s", k.Int64(), xt, lb)
	}
	// the position of a named group of a constant pattern, kept in a package-level variable that only the initialiser sets
	if k, name, ok := subexpIndexConst(pf.p, idx); ok {
		if lb.hasLo && k >= 0 && k < lb.lo {
			return true, fmt.Sprintf("len(%s) >= %d under the dominating conditions, index %d (the group named %q of the constant pattern)", accessName(xt), lb.lo, k, name)
		}
		return false, fmt.Sprintf("index %d (the group named %q of the pattern; -1: no such group) but len(%s) is only known to be in %s", k, name, xt, lb)
	}
	// range-loop index: idx < len(x) dominating, idx = phi+1 from -1 (rotated loop) or phi from 0
	it := vw.Term(idx)
	for _, a := range atoms {
		op, l, r, ok := normAtom(a)
		if !ok {
			continue
		}
		if l.String() == lenKey {
			l, r, op = r, l, flipOp(op)
		}
		if op == "<" && l.String() == it.String() && r.String() == lenKey {
			if nonNegativeIndex(idx) {
				return true, "range index below len(" + accessName(xt) + ")"
			}
		}
	}
	// descending search index: starts at len(x)-1, only ever decremented, and is >= 0 here
	if phi, isPhi := idx.(*ssa.Phi); isPhi {
		desc := len(phi.Edges) > 0
		for _, e := range phi.Edges {
			bo, ok := e.(*ssa.BinOp)
			if !ok {
				desc = false
				break
			}
			k, isK := bo.Y.(*ssa.Const)
			switch {
			case bo.Op == token.SUB && isK && k.Int64() >= 1 && bo.X == ssa.Value(phi):
			case bo.Op == token.ADD && isK && k.Int64() <= -1 && bo.X == ssa.Value(phi):
			case bo.Op == token.SUB && isK && k.Int64() >= 1 && vw.Term(bo.X).String() == lenKey:
			default:
				desc = false
			}
		}
		if desc {
			ib := vw.BoundsAt(b, it.String(), bound{})
			if ib.hasLo && ib.lo >= 0 {
				return true, "index starts at len(" + accessName(xt) + ")-1, is only decremented, and is >= 0 under the dominating conditions"
			}
		}
	}
	return false, fmt.Sprintf("index %s not related to len(%s) by a dominating condition", it, xt)
}

func nonNegativeIndex(v ssa.Value) bool {
	switch x := v.(type) {
	case *ssa.Phi:
		for _, e := range x.Edges {
			if k, ok := e.(*ssa.Const); ok {
				if k.Int64() < 0 {
					return false
				}
				continue
			}
			if bo, ok := e.(*ssa.BinOp); ok && bo.Op == token.ADD && bo.X == x {
				continue
			}
			return false
		}
		return true
	case *ssa.BinOp:
		if x.Op == token.ADD {
			if k, ok := x.Y.(*ssa.Const); ok && k.Int64() == 1 {
				if phi, ok := x.X.(*ssa.Phi); ok {
					for _, e := range phi.Edges {
						if kc, ok := e.(*ssa.Const); ok && kc.Int64() < -1 {
							return false
						}
					}
					return true
				}
			}
		}
	}
	return false
}

// submatchLen: x is the result of (*regexp.Regexp).FindStringSubmatch on a package-level regexp with a constant pattern.
func submatchLen(p *Program, x ssa.Value) (int, bool) {
	call, ok := x.(*ssa.Call)
	if !ok {
		return 0, false
	}
	callee := call.Call.StaticCallee()
	if callee == nil || callee.Name() != "FindStringSubmatch" || len(call.Call.Args) < 1 {
		return 0, false
	}
	ld, ok := call.Call.Args[0].(*ssa.UnOp)
	if !ok {
		return 0, false
	}
	g, ok := ld.X.(*ssa.Global)
	if !ok || g.Pkg == nil {
		return 0, false
	}
	pat, _, ok := p.globalRegexPattern(g.Pkg.Pkg.Path(), g.Name())
	if !ok {
		return 0, false
	}
	re, err := syntax.Parse(pat, syntax.Perl)
	if err != nil {
		return 0, false
	}
	return re.MaxCap() + 1, true
}

// subexpIndexConst: idx is the load of a package-level variable whose only assignment, in the package initialiser, is
// re.SubexpIndex("name") on a package-level regexp with a constant pattern: the index that call returns (computed from
// the pattern: the leftmost group of that name, -1 when there is none).
func subexpIndexConst(p *Program, idx ssa.Value) (int64, string, bool) {
	ld, ok := idx.(*ssa.UnOp)
	if !ok || ld.Op != token.MUL {
		return 0, "", false
	}
	g, ok := ld.X.(*ssa.Global)
	if !ok || g.Pkg == nil {
		return 0, "", false
	}
	var val ssa.Value
	n := 0
	for _, fn := range p.Funcs {
		for _, b := range fn.Blocks {
			for _, in := range b.Instrs {
				st, ok := in.(*ssa.Store)
				if !ok || globalRoot(st.Addr) != g {
					continue
				}
				if !isInitFunc(fn) || fn.Pkg != g.Pkg {
					return 0, "", false
				}
				n++
				val = st.Val
			}
		}
	}
	if n != 1 {
		return 0, "", false
	}
	call, ok := val.(*ssa.Call)
	if !ok {
		return 0, "", false
	}
	callee := call.Call.StaticCallee()
	if callee == nil || callee.Name() != "SubexpIndex" || callee.Pkg == nil || callee.Pkg.Pkg.Path() != "regexp" || len(call.Call.Args) != 2 {
		return 0, "", false
	}
	rl, ok := call.Call.Args[0].(*ssa.UnOp)
	if !ok {
		return 0, "", false
	}
	rg, ok := rl.X.(*ssa.Global)
	if !ok || rg.Pkg == nil {
		return 0, "", false
	}
	nk, ok := call.Call.Args[1].(*ssa.Const)
	if !ok || nk.Value == nil || nk.Value.Kind() != constant.String {
		return 0, "", false
	}
	name := constant.StringVal(nk.Value)
	pat, _, ok := p.globalRegexPattern(rg.Pkg.Pkg.Path(), rg.Name())
	if !ok {
		return 0, "", false
	}
	re, err := syntax.Parse(pat, syntax.Perl)
	if err != nil {
		return 0, "", false
	}
	if name != "" {
		for i, cn := range re.CapNames() {
			if cn == name {
				return int64(i), name, true
			}
		}
	}
	return -1, name, true
}

// ruleDecoderGuard: R9.9 the third-party TOML decoder is only called under a recover guard that turns a
// decoder panic into the function's error result.
func ruleDecoderGuard(c *Ctx, fns []*ssa.Function) {
	n := 0
	for _, fn := range fns {
		for _, b := range fn.Blocks {
			for _, in := range b.Instrs {
				call, ok := in.(*ssa.Call)
				if !ok {
					continue
				}
				callee := call.Call.StaticCallee()
				if callee == nil && call.Call.IsInvoke() {
					// the decoder behind an interface of the repository: what the call can dispatch to
					for _, t := range c.P.InvokeTargets(call) {
						if t.Pkg != nil && strings.Contains(t.Pkg.Pkg.Path(), "pelletier/go-toml") {
							callee = t
						}
					}
				}
				if callee == nil || callee.Pkg == nil || !strings.Contains(callee.Pkg.Pkg.Path(), "pelletier/go-toml") {
					continue
				}
				if callee.Name() != "Decode" && callee.Name() != "Unmarshal" {
					continue
				}
				n++
				key := fmt.Sprintf("%s/toml.%s-under-recover-guard", strings.TrimPrefix(shortFn(fn), "midi/device/"), callee.Name())
				guarded, why := hasRecoverGuard(fn)
				if guarded {
					c.OK("R9.9", key, c.P.Pos(call.Pos()), why)
				} else {
					c.Bad("R9.9", key, c.P.Pos(call.Pos()), "the third-party TOML decoder is called without a recover guard ("+why+"): go-toml v2.0.3 panics on well-formed but ill-typed input (e.g. `velocity = 1979-05-27`: reflect.Set: value of type toml.LocalDate is not assignable to type int), so a user's file can take the running application down")
				}
			}
		}
	}
	if n == 0 {
		c.Undec("R9.9", "toml-decoder-calls", "-", "no call of the TOML decoder found in the reachable parse code")
	}
}

// hasRecoverGuard: fn defers a closure that calls recover() and assigns fn's (named) error result.
func hasRecoverGuard(fn *ssa.Function) (bool, string) {
	for _, b := range fn.Blocks {
		for _, in := range b.Instrs {
			d, ok := in.(*ssa.Defer)
			if !ok {
				continue
			}
			cl := closureOf(d.Call.Value)
			if cl == nil {
				continue
			}
			recovers, setsErr := false, false
			for _, cb := range cl.Blocks {
				for _, ci := range cb.Instrs {
					switch x := ci.(type) {
					case *ssa.Call:
						if bi, ok := x.Call.Value.(*ssa.Builtin); ok && bi.Name() == "recover" {
							recovers = true
						}
					case *ssa.Store:
						if fv, ok := x.Addr.(*ssa.FreeVar); ok && isErrorType(deref(fv.Type())) {
							setsErr = true
						}
					}
				}
			}
			if recovers && setsErr {
				return true, "deferred closure recovers and sets the error result"
			}
			if recovers {
				return false, "a deferred closure recovers but does not turn the panic into the returned error"
			}
		}
	}
	return false, "no deferred recover in " + fn.Name()
}

// ---- R9.7 termination shape -------------------------------------------------------------------------

func ruleTermination(c *Ctx, fns []*ssa.Function) {
	inSet := map[*ssa.Function]bool{}
	for _, f := range fns {
		inSet[f] = true
	}
	for _, fn := range fns {
		// recursion
		for _, b := range fn.Blocks {
			for _, in := range b.Instrs {
				if ci, ok := in.(ssa.CallInstruction); ok {
					if callee := ci.Common().StaticCallee(); callee == fn {
						c.Bad("R9.7", shortFn(fn)+"/recursion", c.P.Pos(in.Pos()), "recursive call in parsing code: termination not structural")
					}
				}
				switch x := in.(type) {
				case *ssa.Send, *ssa.Select:
					c.Bad("R9.7", shortFn(fn)+"/channel-op", c.P.Pos(in.Pos()), "channel operation in parsing code can block forever")
				case *ssa.UnOp:
					if x.Op == token.ARROW {
						c.Bad("R9.7", shortFn(fn)+"/channel-op", c.P.Pos(in.Pos()), "channel receive in parsing code can block forever")
					}
				case *ssa.Go:
					c.Bad("R9.7", shortFn(fn)+"/go", c.P.Pos(in.Pos()), "goroutine started by parsing code")
				}
			}
		}
		// loops: every back edge target (loop header) must belong to a range/counted loop
		n := 0
		for _, b := range fn.Blocks {
			for _, s := range b.Succs {
				if s.Dominates(b) { // back edge b -> s
					n++
					kind, ok := loopKind(s)
					key := fmt.Sprintf("%s/loop#%d", shortFn(fn), n)
					if ok {
						c.OK("R9.7", key, c.P.Pos(firstPos(s)), "bounded loop: "+kind)
					} else {
						c.Bad("R9.7", key, c.P.Pos(firstPos(s)), "loop that is neither a range over a finite collection nor a counted loop: a crafted file could make parsing hang")
					}
				}
			}
		}
	}
	// mutual recursion among the set
	for _, fn := range fns {
		if reachesItself(fn, inSet) {
			c.Bad("R9.7", shortFn(fn)+"/mutual-recursion", c.P.Pos(fn.Pos()), "function can reach itself through static calls")
		}
	}
	c.OK("R9.7", "no-recursion", "-", fmt.Sprintf("call graph over the %d reachable functions has no cycle", len(fns)))
}

func firstPos(b *ssa.BasicBlock) token.Pos {
	for _, in := range b.Instrs {
		if in.Pos().IsValid() {
			return in.Pos()
		}
	}
	for _, s := range b.Succs {
		for _, in := range s.Instrs {
			if in.Pos().IsValid() {
				return in.Pos()
			}
		}
	}
	return token.NoPos
}

func reachesItself(fn *ssa.Function, inSet map[*ssa.Function]bool) bool {
	seen := map[*ssa.Function]bool{}
	var visit func(f *ssa.Function) bool
	visit = func(f *ssa.Function) bool {
		for _, b := range f.Blocks {
			for _, in := range b.Instrs {
				if ci, ok := in.(ssa.CallInstruction); ok {
					callee := ci.Common().StaticCallee()
					if callee == nil || !inSet[callee] {
						continue
					}
					if callee == fn {
						return true
					}
					if !seen[callee] {
						seen[callee] = true
						if visit(callee) {
							return true
						}
					}
				}
			}
		}
		return false
	}
	return visit(fn)
}

// loopKind classifies the loop with header h: range over map/string/channel-free Next, or an
// index loop whose exit condition compares an induction variable (step +1) with len(...) or a constant.
func loopKind(h *ssa.BasicBlock) (string, bool) {
	// Next-based range
	for _, in := range h.Instrs {
		if nx, ok := in.(*ssa.Next); ok {
			if r, ok := nx.Iter.(*ssa.Range); ok {
				switch r.X.Type().Underlying().(type) {
				case *types.Map:
					return "range over a map", true
				case *types.Basic:
					return "range over a string", true
				}
			}
		}
	}
	// counted loop: header phi i with a constant step of +1/-1 computed inside the loop, and an exit
	// test that compares i (or the stepped value) with a loop-invariant bound in the matching direction
	body := map[*ssa.BasicBlock]bool{}
	for _, p := range h.Preds {
		if h.Dominates(p) {
			for b := range loopBody(h, p) {
				body[b] = true
			}
		}
	}
	invariant := func(v ssa.Value) bool {
		switch x := v.(type) {
		case *ssa.Const, *ssa.Parameter, *ssa.FreeVar, *ssa.Global:
			return true
		case *ssa.Call:
			if bi, ok := x.Call.Value.(*ssa.Builtin); ok && (bi.Name() == "len" || bi.Name() == "cap") {
				return true
			}
			return !body[x.Block()]
		case ssa.Instruction:
			return !body[x.Block()]
		}
		return false
	}
	for _, in := range h.Instrs {
		phi, ok := in.(*ssa.Phi)
		if !ok {
			continue
		}
		for _, e := range phi.Edges {
			bo, ok := e.(*ssa.BinOp)
			if !ok || (bo.Op != token.ADD && bo.Op != token.SUB) || bo.X != phi {
				continue
			}
			k, ok := bo.Y.(*ssa.Const)
			if !ok || k.Int64() != 1 {
				continue
			}
			up := bo.Op == token.ADD
			for _, cand := range []ssa.Value{phi, bo} {
				refs := cand.Referrers()
				if refs == nil {
					continue
				}
				for _, r := range *refs {
					cmp, ok := r.(*ssa.BinOp)
					if !ok || !body[cmp.Block()] {
						continue
					}
					var other ssa.Value
					op := cmp.Op
					if cmp.X == cand {
						other = cmp.Y
					} else if cmp.Y == cand {
						other = cmp.X
						switch op {
						case token.LSS:
							op = token.GTR
						case token.LEQ:
							op = token.GEQ
						case token.GTR:
							op = token.LSS
						case token.GEQ:
							op = token.LEQ
						}
					} else {
						continue
					}
					if !invariant(other) {
						continue
					}
					// the comparison must control a loop exit
					controls := false
					for _, rr := range *cmp.Referrers() {
						if ifi, ok := rr.(*ssa.If); ok {
							for _, s := range ifi.Block().Succs {
								if !body[s] {
									controls = true
								}
							}
						}
					}
					if !controls {
						continue
					}
					if up && (op == token.LSS || op == token.LEQ) {
						return "counted loop (step +1, upper bound loop-invariant)", true
					}
					if !up && (op == token.GTR || op == token.GEQ) {
						return "counted loop (step -1, lower bound loop-invariant)", true
					}
				}
			}
		}
	}
	return "", false
}

// ---- R9.8 errors are returned, not swallowed ------------------------------------------------------------

func isErrorType(t types.Type) bool {
	n, ok := t.(*types.Named)
	return ok && n.Obj().Pkg() == nil && n.Obj().Name() == "error"
}

// A failure edge may legitimately continue when the same input is validated again by a second fallible call whose
// own failure is returned ("try as a number, else as a note name"): revalidationEdges finds, for a failed call, the
// success edges of later error tests of calls that take the failed call's operand; a success return reachable from
// the failure edge only through such an edge is not "accepting a malformed value silently".
func revalidationEdges(fn *ssa.Function, failed *ssa.Call) map[[2]*ssa.BasicBlock]string {
	out := map[[2]*ssa.BasicBlock]string{}
	if len(failed.Call.Args) == 0 {
		return out
	}
	same := func(a, b ssa.Value) bool {
		if a == b {
			return true
		}
		// two loads of the same local / the same phi
		ua, ok1 := a.(*ssa.UnOp)
		ub, ok2 := b.(*ssa.UnOp)
		return ok1 && ok2 && ua.Op == token.MUL && ub.Op == token.MUL && ua.X == ub.X
	}
	for _, b := range fn.Blocks {
		for _, in := range b.Instrs {
			call, ok := in.(*ssa.Call)
			if !ok || call == failed || len(call.Call.Args) == 0 {
				continue
			}
			res := call.Call.Signature().Results()
			if res.Len() < 2 || !isErrorType(res.At(res.Len()-1).Type()) {
				continue
			}
			shares := false
			for _, a := range call.Call.Args {
				for _, fa := range failed.Call.Args {
					if same(a, fa) {
						shares = true
					}
				}
			}
			if !shares || call.Referrers() == nil {
				continue
			}
			name := "call"
			if callee := call.Call.StaticCallee(); callee != nil {
				name = callee.Name()
			}
			for _, r := range *call.Referrers() {
				ex, ok := r.(*ssa.Extract)
				if !ok || ex.Index != res.Len()-1 || ex.Referrers() == nil {
					continue
				}
				for _, rr := range *ex.Referrers() {
					bo, ok := rr.(*ssa.BinOp)
					if !ok || (bo.Op != token.EQL && bo.Op != token.NEQ) || bo.Referrers() == nil {
						continue
					}
					if k, isK := bo.Y.(*ssa.Const); !isK || k.Value != nil {
						continue
					}
					for _, r3 := range *bo.Referrers() {
						if ifi, ok := r3.(*ssa.If); ok {
							succ := ifi.Block().Succs[0] // err == nil taken
							if bo.Op == token.NEQ {
								succ = ifi.Block().Succs[1]
							}
							out[[2]*ssa.BasicBlock{ifi.Block(), succ}] = name
						}
					}
				}
			}
		}
	}
	return out
}

// reachableAvoiding: blocks reachable from start without passing through stop and without taking the given edges.
func reachableAvoiding(start, stop *ssa.BasicBlock, avoid map[[2]*ssa.BasicBlock]string) map[*ssa.BasicBlock]bool {
	seen := map[*ssa.BasicBlock]bool{}
	stack := []*ssa.BasicBlock{start}
	for len(stack) > 0 {
		b := stack[len(stack)-1]
		stack = stack[:len(stack)-1]
		if seen[b] || b == stop {
			continue
		}
		seen[b] = true
		for _, s := range b.Succs {
			if _, skip := avoid[[2]*ssa.BasicBlock{b, s}]; skip {
				continue
			}
			stack = append(stack, s)
		}
	}
	return seen
}

// ruleErrorsReturnedAs runs R9.8 on fns and files the obligations under another rule id (properties that depend on
// "a failed conversion/decoding is a rejection" as a necessary condition).
func ruleErrorsReturnedAs(c *Ctx, fns []*ssa.Function, rule string, skip func(key string) bool) {
	sub := NewCtx(c.P, c.Property, c.Tier)
	ruleErrorsReturned(sub, fns)
	for _, o := range sub.Obs {
		if skip != nil && skip(o.Key) {
			continue
		}
		o.Rule = rule
		c.Obs = append(c.Obs, o)
		c.Counts[rule]++
	}
}

// isNamedResult: a is the variable of one of fn's named results.
func isNamedResult(fn *ssa.Function, a *ssa.Alloc) bool {
	res := fn.Signature.Results()
	for i := 0; i < res.Len(); i++ {
		if res.At(i).Name() != "" && res.At(i).Name() == a.Comment && a.Parent() == fn {
			return true
		}
	}
	return false
}

func ruleErrorsReturned(c *Ctx, fns []*ssa.Function) {
	for _, fn := range fns {
		ord := map[string]int{}
		// success returns: error result is the nil constant
		var success []*ssa.BasicBlock
		for _, b := range fn.Blocks {
			if r, ok := b.Instrs[len(b.Instrs)-1].(*ssa.Return); ok {
				for _, res := range r.Results {
					if isErrorType(res.Type()) {
						if k, isK := res.(*ssa.Const); isK && k.Value == nil {
							success = append(success, b)
						}
						// a named result that is read back at the return (functions with a deferred recover): it is still nil
						// there unless an assignment to it is certain to have happened before
						if ld, isLd := res.(*ssa.UnOp); isLd && ld.Op == token.MUL {
							if a, isAlloc := ld.X.(*ssa.Alloc); isAlloc && a.Referrers() != nil && isNamedResult(fn, a) {
								assigned := false
								for _, ar := range *a.Referrers() {
									if st, isSt := ar.(*ssa.Store); isSt && st.Addr == a && st.Parent() == fn {
										if k, isK := st.Val.(*ssa.Const); isK && k.Value == nil {
											continue
										}
										if self, isSelf := st.Val.(*ssa.UnOp); isSelf && self.Op == token.MUL && self.X == ssa.Value(a) {
											continue // `return err` of the named result itself: assigns what it already holds
										}
										if st.Block() == ld.Block() || st.Block().Dominates(ld.Block()) {
											assigned = true
										}
									}
								}
								if !assigned {
									success = append(success, b)
								}
							}
						}
					}
				}
			}
		}
		for _, b := range fn.Blocks {
			for _, in := range b.Instrs {
				call, ok := in.(*ssa.Call)
				if !ok {
					continue
				}
				var errVal ssa.Value
				sig := call.Call.Signature()
				res := sig.Results()
				if res.Len() == 0 || !isErrorType(res.At(res.Len()-1).Type()) {
					continue
				}
				name := "dyn"
				if callee := call.Call.StaticCallee(); callee != nil {
					name = callee.Name()
					if callee.Pkg != nil {
						name = callee.Pkg.Pkg.Name() + "." + callee.Name()
					}
					if strings.HasPrefix(name, "fmt.Errorf") || strings.HasPrefix(name, "errors.New") {
						continue // constructing an error
					}
				} else if call.Call.IsInvoke() {
					name = "." + call.Call.Method.Name()
				}
				if res.Len() == 1 {
					errVal = call
				} else if refs := call.Referrers(); refs != nil {
					for _, r := range *refs {
						if ex, ok := r.(*ssa.Extract); ok && ex.Index == res.Len()-1 {
							errVal = ex
						}
					}
				}
				base := fmt.Sprintf("%s/%s", strings.TrimPrefix(shortFn(fn), "midi/device/"), name)
				ord[base]++
				key := base
				if ord[base] > 1 {
					key = fmt.Sprintf("%s#%d", base, ord[base])
				}
				pos := c.P.Pos(call.Pos())
				if errVal == nil {
					c.Bad("R9.8", key, pos, "the error result of "+name+" is discarded")
					continue
				}
				// uses
				var ifs []*ssa.If
				var polarity []bool // true: true-successor is the failure side
				returned := false
				errVals := []ssa.Value{errVal}
				// follow through phis/local variables (err reassigned)
				seen := map[ssa.Value]bool{}
				for i := 0; i < len(errVals); i++ {
					v := errVals[i]
					if seen[v] || v.Referrers() == nil {
						continue
					}
					seen[v] = true
					for _, r := range *v.Referrers() {
						switch u := r.(type) {
						case *ssa.BinOp:
							if k, isK := u.Y.(*ssa.Const); isK && k.Value == nil && (u.Op == token.NEQ || u.Op == token.EQL) {
								for _, rr := range *u.Referrers() {
									if ifi, ok := rr.(*ssa.If); ok {
										ifs = append(ifs, ifi)
										polarity = append(polarity, u.Op == token.NEQ)
									}
								}
							}
						case *ssa.Return:
							returned = true
						case *ssa.Phi:
							errVals = append(errVals, u)
						case *ssa.MakeInterface, *ssa.ChangeInterface:
							returned = true // wrapped into another error / logged
						case *ssa.Call:
							returned = true // passed on (fmt.Errorf("%w"), errors.Is, log)
						case *ssa.Store:
							if a, ok := u.Addr.(*ssa.Alloc); ok {
								for _, ar := range *a.Referrers() {
									if ld, ok := ar.(*ssa.UnOp); ok {
										errVals = append(errVals, ld)
									}
								}
							} else {
								returned = true
							}
						}
					}
				}
				if len(ifs) == 0 {
					if returned {
						c.OK("R9.8", key, pos, "error is returned / passed on unconditionally")
					} else {
						c.Bad("R9.8", key, pos, "the error result of "+name+" is never inspected")
					}
					continue
				}
				bad := ""
				// a branch taken because the error is of a particular, expected kind (errors.Is(err, os.ErrNotExist),
				// os.IsNotExist(err): "the directory is not there yet") is a decision about that kind, not a dropped error: what
				// lies behind it is not "after the call failed, unnoticed"
				kindEdges := map[[2]*ssa.BasicBlock]string{}
				for _, ev := range errVals {
					if ev.Referrers() == nil {
						continue
					}
					for _, r := range *ev.Referrers() {
						kc, isCall := r.(*ssa.Call)
						if !isCall {
							continue
						}
						kcallee := kc.Call.StaticCallee()
						if kcallee == nil {
							continue
						}
						full := pkgPathOf(kcallee) + "." + kcallee.Name()
						if full != "errors.Is" && full != "os.IsNotExist" && full != "os.IsExist" && full != "errors.As" {
							continue
						}
						if kc.Referrers() == nil {
							continue
						}
						for _, kr := range *kc.Referrers() {
							if kif, isIf := kr.(*ssa.If); isIf {
								kindEdges[[2]*ssa.BasicBlock{kif.Block(), kif.Block().Succs[0]}] = full
							}
						}
					}
				}
				for i, ifi := range ifs {
					fail := ifi.Block().Succs[1]
					if polarity[i] {
						fail = ifi.Block().Succs[0]
					}
					// the failure side must not reach a success return (without re-entering through the branch itself)
					if reach := reachableAvoiding(fail, ifi.Block(), kindEdges); len(success) > 0 {
						for _, s := range success {
							if reach[s] {
								bad = "after " + name + " failed, execution can still reach a `return ..., nil`"
							}
						}
					}
				}
				if bad != "" {
					// fallback: the same operand is validated again by another fallible call
					reval := revalidationEdges(fn, call)
					still := false
					var via string
					for _, v := range reval {
						via = v
					}
					for i, ifi := range ifs {
						fail := ifi.Block().Succs[1]
						if polarity[i] {
							fail = ifi.Block().Succs[0]
						}
						reach := reachableAvoiding(fail, ifi.Block(), reval)
						for _, s := range success {
							if reach[s] {
								still = true
							}
						}
					}
					if len(reval) > 0 && !still {
						c.OK("R9.8", key, pos, "fallback: after "+name+" failed the same operand is validated by "+via+", and a success return is reachable only through that call succeeding")
					} else {
						c.Bad("R9.8", key, pos, bad+": a malformed value would be accepted silently")
					}
				} else {
					c.OK("R9.8", key, pos, "failure edge cannot reach a success return")
				}
			}
		}
	}
}

// reachable: blocks reachable from start without passing through stop.
func reachable(start, stop *ssa.BasicBlock) map[*ssa.BasicBlock]bool {
	seen := map[*ssa.BasicBlock]bool{}
	stack := []*ssa.BasicBlock{start}
	for len(stack) > 0 {
		b := stack[len(stack)-1]
		stack = stack[:len(stack)-1]
		if seen[b] || b == stop {
			continue
		}
		seen[b] = true
		stack = append(stack, b.Succs...)
	}
	return seen
}

func controlsC09(p *Program) []controlResult {
	var fns []*ssa.Function
	for _, f := range p.Funcs {
		if f.Pkg != nil && strings.HasSuffix(f.Pkg.Pkg.Path(), "/maypanic") {
			fns = append(fns, f)
		}
	}
	var res []controlResult
	bad, good := 0, 0
	for _, f := range fns {
		v := inventoryMayPanic(nil, p, []*ssa.Function{f}, "R9")
		switch {
		case strings.HasPrefix(f.Name(), "Bad"):
			if v == 0 {
				res = append(res, controlResult{Name: "R9 control " + f.Name(), OK: false, Detail: "broken instance not reported"})
			}
			bad++
		case strings.HasPrefix(f.Name(), "Good"):
			if v != 0 {
				res = append(res, controlResult{Name: "R9 control " + f.Name(), OK: false, Detail: fmt.Sprintf("correct instance reported (%d)", v)})
			}
			good++
		}
	}
	ok := len(res) == 0 && bad >= 4 && good >= 4
	res = append(res, controlResult{Name: "R9 may-panic inventory fires on controls/maypanic.Bad* and not on Good*", OK: ok, Detail: fmt.Sprintf("bad=%d good=%d failures=%d", bad, good, len(res))})
	return res
}

// divisorNonZeroOnPaths: see the may-panic inventory (R9.2).
func divisorNonZeroOnPaths(p *Program, roots []*ssa.Function, div *ssa.BinOp) (string, bool) {
	total := 0
	for _, root := range roots {
		paths, err := Enumerate(root, SymConfig{Prog: p, MaxDepth: 3, MaxVisits: 4, Collapse: true, MaxPaths: 20000})
		if err != nil {
			continue
		}
		for _, pt := range paths {
			for _, e := range pt.Effects {
				if e.Kind != "div" || e.Instr != ssa.Instruction(div) {
					continue
				}
				total++
				t := e.Args[0].StripConv()
				n := e.NAtoms
				if n > len(pt.Atoms) {
					n = len(pt.Atoms)
				}
				b := boundsOf(pt.Atoms[:n], t.String())
				if !(b.hasLo && b.lo >= 1 || b.hasHi && b.hi <= -1) {
					return "", false
				}
			}
		}
	}
	if total == 0 {
		return "", false
	}
	return fmt.Sprintf("on each of the %d path occurrence(s) from the entry points the conditions taken before the division exclude a zero divisor", total), true
}

// affixLen: the longest constant c for which strings.HasPrefix(s, c) or strings.HasSuffix(s, c) is established by the atoms.
func affixLen(atoms []Atom, s *Term) int64 {
	best := int64(0)
	for _, a := range atoms {
		cnd, taken := a.Cond, a.Taken
		for cnd.Op == "unop" && cnd.Aux == "!" {
			cnd, taken = cnd.Args[0], !taken
		}
		if !taken || cnd.Op != "call" || len(cnd.Args) != 2 {
			continue
		}
		if !strings.HasPrefix(cnd.Aux, "strings.HasPrefix") && !strings.HasPrefix(cnd.Aux, "strings.HasSuffix") {
			continue
		}
		if cnd.Args[0].String() != s.String() {
			continue
		}
		if c, ok := cnd.Args[1].IsStringConst(); ok && int64(len(c)) > best {
			best = int64(len(c))
		}
	}
	return best
}
