package main

import (
	"fmt"
	"go/constant"
	"go/token"
	"go/types"
	"sort"
	"strings"

	"golang.org/x/tools/go/ssa"
)

// parserFacts: what config.ParseData establishes about the values it puts into config.Config.
type parserFacts struct {
	leavesBusy map[*ssa.Alloc]bool
	c          *Ctx
	p          *Program
	fn         *ssa.Function
	// region: ParseData and the named functions of package config it (transitively) calls - a parser split into helpers
	// (parseKey, parseAnalog, ...) is analysed as one unit
	region map[*ssa.Function]bool
	views  map[*ssa.Function]*FnView
	// composite literals of the config types, by type name
	lits map[string][]*ssa.Alloc
	err  error
	// assumed invariants (each is established by separate obligations of the rule that sets it)
	fieldInv  map[*types.Var]rng   // struct field loaded through FieldAddr/Field
	structInv map[string]rng       // "Type.Field" of value-typed config structs
	elemInv   map[*types.Var][]rng // array elements of entries of a map hanging off a field: index -> range
	used      map[string]bool      // which invariants a proof relied on
	extra     []Atom               // edge conditions of the phi edges currently being proven
}

var configTypeNames = []string{"Config", "Defaults", "Key", "Analog", "KeyMapping", "Colors", "OpenRGB"}

func newParserFacts(c *Ctx) *parserFacts {
	pf := &parserFacts{c: c, p: c.P, views: map[*ssa.Function]*FnView{}, lits: map[string][]*ssa.Alloc{},
		fieldInv: map[*types.Var]rng{}, structInv: map[string]rng{}, elemInv: map[*types.Var][]rng{}, used: map[string]bool{}}
	pf.fn = c.P.Func(pkgConfig, "", "ParseData")
	if pf.fn == nil {
		pf.err = fmt.Errorf("config.ParseData not found")
		return pf
	}
	c.Fn(shortFn(pf.fn))
	pf.region = map[*ssa.Function]bool{}
	var grow func(fn *ssa.Function)
	grow = func(fn *ssa.Function) {
		if pf.region[fn] {
			return
		}
		pf.region[fn] = true
		var scan func(f *ssa.Function)
		scan = func(f *ssa.Function) {
			for _, b := range f.Blocks {
				for _, in := range b.Instrs {
					if ci, ok := in.(ssa.CallInstruction); ok {
						if callee := ci.Common().StaticCallee(); callee != nil && callee.Parent() == nil && len(callee.Blocks) > 0 && funcPkgPath(callee) == pkgConfig { // (an instantiated generic helper has no package of its own)
							grow(callee)
						}
					}
				}
			}
			for _, af := range f.AnonFuncs {
				scan(af)
			}
		}
		scan(fn)
	}
	grow(pf.fn)
	for _, fn := range c.P.Funcs {
		for _, b := range fn.Blocks {
			for _, in := range b.Instrs {
				a, ok := in.(*ssa.Alloc)
				if !ok {
					continue
				}
				n, ok := deref(a.Type()).(*types.Named)
				if !ok || n.Obj().Pkg() == nil || n.Obj().Pkg().Path() != pkgConfig {
					continue
				}
				if wholeStore(a) != nil {
					continue // a spilled local copy of an existing value, not a literal
				}
				for _, tn := range configTypeNames {
					if n.Obj().Name() == tn {
						pf.lits[tn+"@"+shortFn(topFunc(fn))] = append(pf.lits[tn+"@"+shortFn(topFunc(fn))], a)
					}
				}
			}
		}
	}
	return pf
}

func (pf *parserFacts) view(fn *ssa.Function) *FnView {
	if v, ok := pf.views[fn]; ok {
		return v
	}
	v := NewFnView(pf.p, fn)
	pf.views[fn] = v
	return v
}

// inRegionKey: does the lits key "<typ>@<func>" name a function of the parser region?
func (pf *parserFacts) inRegionKey(k string) bool {
	_, fname, _ := strings.Cut(k, "@")
	for f := range pf.region {
		if shortFn(f) == fname {
			return true
		}
	}
	return false
}

// regionFuncs: the parser region in a deterministic order, ParseData first, closures included.
func (pf *parserFacts) regionFuncs() []*ssa.Function {
	var out []*ssa.Function
	for _, f := range pf.p.Funcs {
		if pf.region[topFunc(f)] {
			out = append(out, f)
		}
	}
	sort.SliceStable(out, func(i, j int) bool { return out[i] == pf.fn && out[j] != pf.fn })
	return out
}

// regionBlocks: all blocks of the parser region.
func (pf *parserFacts) regionBlocks() []*ssa.BasicBlock {
	var out []*ssa.BasicBlock
	for _, f := range pf.regionFuncs() {
		out = append(out, f.Blocks...)
	}
	return out
}

// literals returns the composite literals of config.<typ> built inside the parser region (ParseData, its helpers, closures).
func (pf *parserFacts) literals(typ string) []*ssa.Alloc {
	var keys []string
	for k := range pf.lits {
		if strings.HasPrefix(k, typ+"@") && pf.inRegionKey(k) {
			keys = append(keys, k)
		}
	}
	sort.Strings(keys)
	var out []*ssa.Alloc
	for _, k := range keys {
		out = append(out, pf.lits[k]...)
	}
	return out
}

// foreignLiterals: literals of config.<typ> built anywhere else in non-test code.
func (pf *parserFacts) foreignLiterals(typ string) []*ssa.Alloc {
	var out []*ssa.Alloc
	for k, v := range pf.lits {
		if strings.HasPrefix(k, typ+"@") && !pf.inRegionKey(k) {
			out = append(out, v...)
		}
	}
	return out
}

type rng struct{ lo, hi int64 }

// proveRange tries to show that v, evaluated in block at (of v's function), lies in [lo,hi].
func (pf *parserFacts) proveRange(v ssa.Value, at *ssa.BasicBlock, lo, hi int64, depth int) (bool, string) {
	if depth > 8 {
		return false, "too deep"
	}
	switch x := v.(type) {
	case *ssa.Const:
		if x.Value == nil {
			return lo <= 0 && 0 <= hi, "zero"
		}
		if x.Value.Kind() != constant.Int {
			return false, "non-integer constant"
		}
		n := x.Int64()
		if n >= lo && n <= hi {
			return true, fmt.Sprintf("constant %d", n)
		}
		return false, fmt.Sprintf("constant %d outside [%d,%d]", n, lo, hi)
	case *ssa.Convert:
		if !isIntegerType(x.Type()) || !isIntegerType(x.X.Type()) {
			return false, "non-integer conversion " + x.String()
		}
		tlo, thi := typeRange(x.Type())
		l2, h2 := lo, hi
		if tlo > l2 {
			l2 = tlo
		}
		if thi < h2 {
			h2 = thi
		}
		ok, why := pf.proveRange(x.X, at, l2, h2, depth+1)
		if ok {
			return true, "narrowing of a value in range: " + why
		}
		// the conditions may speak about the converted value itself (n := int(n64); if n < 0 || n > 15 { return err })
		if ok2, why2 := pf.proveByGuards(v, at, lo, hi); ok2 {
			return true, why2
		}
		return false, fmt.Sprintf("operand of %s(...) not proven within [%d,%d]: %s", x.Type(), l2, h2, why)
	case *ssa.ChangeType:
		return pf.proveRange(x.X, at, lo, hi, depth+1)
	case *ssa.Phi:
		if lo2, hi2, ok := countedLoopRange(x); ok {
			if lo2 >= lo && hi2 <= hi {
				return true, fmt.Sprintf("counted loop variable in [%d,%d]", lo2, hi2)
			}
			return false, fmt.Sprintf("counted loop variable ranges over [%d,%d]", lo2, hi2)
		}
		var whys []string
		for i, e := range x.Edges {
			// the edge's own branch condition
			pred := x.Block().Preds[i]
			n := len(pf.extra)
			if ifi, isIf := pred.Instrs[len(pred.Instrs)-1].(*ssa.If); isIf && pred.Succs[0] != pred.Succs[1] {
				pf.extra = append(pf.extra, Atom{Cond: pf.view(pred.Parent()).Term(ifi.Cond), Taken: pred.Succs[0] == x.Block(), Instr: ifi})
			}
			ok, why := pf.proveRange(e, pred, lo, hi, depth+1)
			if !ok && at != pred && x.Block().Dominates(at) {
				// the value was picked early and is validated later, before this use (`v := cfg.X; if v == 0 { v = 64 }` ...
				// `if cfg.X < 0 || cfg.X > 127 { return err }` ... use of v): the conditions that dominate the use speak about
				// the same access path, the edge's own condition still holds for the value that took this edge
				if ok2, why2 := pf.proveRange(e, at, lo, hi, depth+1); ok2 {
					ok, why = true, why2
				}
			}
			pf.extra = pf.extra[:n]
			if !ok {
				return false, fmt.Sprintf("phi edge %d: %s", i, why)
			}
			whys = append(whys, why)
		}
		return true, "all phi edges: " + strings.Join(whys, " | ")
	case *ssa.BinOp:
		if k, ok := x.Y.(*ssa.Const); ok && k.Value != nil && k.Value.Kind() == constant.Int {
			n := k.Int64()
			switch x.Op {
			case token.REM:
				if n > 0 && !isSignedT(x.X.Type()) && 0 >= lo && n-1 <= hi {
					return true, fmt.Sprintf("x %% %d of an unsigned value", n)
				}
			case token.AND:
				if n >= 0 && 0 >= lo && n <= hi {
					return true, fmt.Sprintf("x & %d", n)
				}
			case token.ADD:
				if !isNarrow(x.Type()) {
					return pf.proveRange(x.X, at, lo-n, hi-n, depth+1)
				}
			case token.SUB:
				if !isNarrow(x.Type()) {
					return pf.proveRange(x.X, at, lo+n, hi+n, depth+1)
				}
			case token.SHR:
				if !isSignedT(x.X.Type()) || true {
					// value >> n keeps sign; only useful with a following narrowing conversion
				}
			}
		}
	case *ssa.Parameter:
		// a helper's parameter: every static call site must pass a value in range (under the call site's guards)
		if sites, ok := staticCallSites(pf.p, x.Parent()); ok {
			idx := paramIndex(x)
			var whys []string
			for _, ci := range sites {
				if idx < 0 || idx >= len(ci.Common().Args) {
					return false, "call site with fewer arguments"
				}
				saved := pf.extra
				pf.extra = nil
				ok, why := pf.proveRange(ci.Common().Args[idx], ci.Block(), lo, hi, depth+1)
				pf.extra = saved
				if !ok {
					return false, fmt.Sprintf("argument at %s: %s", pf.p.Pos(ci.Pos()), why)
				}
				whys = append(whys, why)
			}
			return true, "every call site passes a value in range: " + strings.Join(whys, " | ")
		}
	case *ssa.Call:
		if callee := x.Call.StaticCallee(); callee != nil && pf.p.OwnedFunc(callee) && callee.Blocks != nil && callee.Signature.Results().Len() == 1 {
			okAll, n := true, 0
			var why string
			for _, b := range callee.Blocks {
				if r, isRet := b.Instrs[len(b.Instrs)-1].(*ssa.Return); isRet && b != callee.Recover {
					n++
					if ok, w := pf.proveRange(r.Results[0], b, lo, hi, depth+1); !ok {
						okAll, why = false, w
					}
				}
			}
			if okAll && n > 0 {
				return true, "every return of " + callee.Name() + " is in range"
			}
			if n > 0 {
				return false, "result of " + callee.Name() + ": " + why
			}
		}
	case *ssa.Extract:
		if call, ok := x.Tuple.(*ssa.Call); ok {
			if callee := call.Call.StaticCallee(); callee != nil && pf.p.OwnedFunc(callee) && callee.Blocks != nil {
				okAll := true
				var why string
				for _, b := range callee.Blocks {
					if b == callee.Recover {
						continue
					}
					if r, isRet := b.Instrs[len(b.Instrs)-1].(*ssa.Return); isRet && x.Index < len(r.Results) {
						ok, w := pf.proveRange(r.Results[x.Index], b, lo, hi, depth+1)
						if !ok {
							okAll, why = false, w
						}
					}
				}
				if okAll {
					return true, "every return of " + callee.Name() + " is in range"
				}
				return false, "result of " + callee.Name() + ": " + why
			}
		}
	}
	// a component of an aggregate that was passed by value (held.channel where held came from a helper, arr[1] of an array
	// parameter): prove every scalar it can have been built from
	{
		var agg ssa.Value
		var aggAlloc *ssa.Alloc
		var fld *types.Var
		idx := int64(-1)
		switch x := v.(type) {
		case *ssa.Field:
			agg, fld = x.X, x.X.Type().Underlying().(*types.Struct).Field(x.Field)
		case *ssa.Index:
			if k, ok := x.Index.(*ssa.Const); ok {
				agg, idx = x.X, k.Int64()
			}
		case *ssa.UnOp:
			if x.Op == token.MUL {
				switch y := x.X.(type) {
				case *ssa.FieldAddr:
					if a, ok := y.X.(*ssa.Alloc); ok {
						aggAlloc, fld = a, deref(y.X.Type()).Underlying().(*types.Struct).Field(y.Field)
					}
				case *ssa.IndexAddr:
					if a, ok := y.X.(*ssa.Alloc); ok {
						if k, ok := y.Index.(*ssa.Const); ok {
							aggAlloc, idx = a, k.Int64()
						}
					}
				}
			}
		}
		var leaves []leafVal
		okLeaves := false
		if aggAlloc != nil {
			leaves, okLeaves = pf.allocLeaves(aggAlloc, fld, idx, 0)
			// only worth it when the variable is a copy of something built elsewhere or is assigned more than once: a plain
			// composite literal with one store per field is handled by the rules below as before
			if okLeaves && len(leaves) == 1 && leaves[0].v == v {
				okLeaves = false
			}
		} else if agg != nil {
			_, isParam := agg.(*ssa.Parameter)
			_, isCall := agg.(*ssa.Call)
			if isParam || isCall {
				leaves, okLeaves = pf.componentLeaves(agg, fld, idx, 0)
			}
		}
		if okLeaves {
			{
				if len(leaves) > 0 {
					all := true
					var whys []string
					for _, l := range leaves {
						if l.elemOf != nil {
							rs := pf.elemInv[l.elemOf]
							if int(l.idx) < len(rs) && rs[l.idx].lo >= lo && rs[l.idx].hi <= hi {
								pf.used["elem:"+l.elemOf.Name()] = true
								whys = append(whys, fmt.Sprintf("container invariant %s[..][%d] in [%d,%d]", l.elemOf.Name(), l.idx, rs[l.idx].lo, rs[l.idx].hi))
								continue
							}
							all = false
							break
						}
						saved := pf.extra
						pf.extra = nil
						ok, why := pf.proveRange(l.v, l.at, lo, hi, depth+1)
						pf.extra = saved
						if !ok {
							all = false
							break
						}
						whys = append(whys, why)
					}
					if all {
						return true, "every value this component is built from: " + strings.Join(whys, " | ")
					}
				}
			}
		}
	}
	// assumed invariants
	switch x := v.(type) {
	case *ssa.UnOp:
		if x.Op == token.MUL {
			if f := fieldOfAddr(x.X); f != nil {
				if r, ok := pf.fieldInv[f]; ok && r.lo >= lo && r.hi <= hi {
					pf.used["field:"+f.Name()] = true
					return true, fmt.Sprintf("field invariant %s in [%d,%d]", f.Name(), r.lo, r.hi)
				}
				// field of a spilled local struct copy
				if fa := x.X.(*ssa.FieldAddr); true {
					if a, ok := fa.X.(*ssa.Alloc); ok && wholeStore(a) != nil {
						if n, ok := deref(a.Type()).(*types.Named); ok {
							k := n.Obj().Name() + "." + f.Name()
							if r, ok := pf.structInv[k]; ok && r.lo >= lo && r.hi <= hi {
								pf.used["config:"+k] = true
								return true, fmt.Sprintf("parser-established bound %s in [%d,%d]", k, r.lo, r.hi)
							}
						}
					}
				}
			}
			if ia, ok := x.X.(*ssa.IndexAddr); ok {
				if a, ok := ia.X.(*ssa.Alloc); ok {
					if src := wholeStore(a); src != nil {
						if k, ok := ia.Index.(*ssa.Const); ok {
							for f, rs := range pf.elemInv {
								if derivesFromField(src, f, map[ssa.Value]bool{}) && int(k.Int64()) < len(rs) {
									r := rs[k.Int64()]
									if r.lo >= lo && r.hi <= hi {
										pf.used["elem:"+f.Name()] = true
										return true, fmt.Sprintf("container invariant %s[..][%d] in [%d,%d]", f.Name(), k.Int64(), r.lo, r.hi)
									}
								}
							}
						}
					}
				}
			}
		}
	case *ssa.Field:
		if n, ok := x.X.Type().(*types.Named); ok {
			st := n.Underlying().(*types.Struct)
			k := n.Obj().Name() + "." + st.Field(x.Field).Name()
			if r, ok := pf.structInv[k]; ok && r.lo >= lo && r.hi <= hi {
				pf.used["config:"+k] = true
				return true, fmt.Sprintf("parser-established bound %s in [%d,%d]", k, r.lo, r.hi)
			}
		}
	case *ssa.Index:
		if k, ok := x.Index.(*ssa.Const); ok {
			for f, rs := range pf.elemInv {
				if derivesFromField(x.X, f, map[ssa.Value]bool{}) && int(k.Int64()) < len(rs) {
					r := rs[k.Int64()]
					if r.lo >= lo && r.hi <= hi {
						pf.used["elem:"+f.Name()] = true
						return true, fmt.Sprintf("container invariant %s[..][%d] in [%d,%d]", f.Name(), k.Int64(), r.lo, r.hi)
					}
				}
			}
		}
	case *ssa.Phi:
		_ = x
	}
	if lo2, hi2, ok := countedLoopRange(v); ok && lo2 >= lo && hi2 <= hi {
		return true, fmt.Sprintf("counted loop variable in [%d,%d]", lo2, hi2)
	}
	return pf.proveByGuards(v, at, lo, hi)
}

// proveByGuards: the conditions that dominate `at` (and the facts carried along a phi edge) bound the term of v itself.
func (pf *parserFacts) proveByGuards(v ssa.Value, at *ssa.BasicBlock, lo, hi int64) (bool, string) {
	// guards on the access path
	fn := at.Parent()
	vw := pf.view(fn)
	t := vw.Term(v)
	init := bound{}
	if tl, th := typeRangeOf(v.Type()); tl != th {
		init = bound{lo: tl, hi: th, hasLo: true, hasHi: true}
	}
	b := pf.boundsInterproc(at, t, init, 0) // dominating guards, hull over joining edges, validator facts, call sites
	if len(pf.extra) > 0 {
		eb := boundsFrom(pf.extra, t.String(), b)
		for k := range b.excluded {
			eb.excluded[k] = true
		}
		b = tighten(eb)
	}
	const inf = int64(1) << 61
	if (b.hasLo && b.lo >= lo || lo <= -inf) && (b.hasHi && b.hi <= hi || hi >= inf) {
		return true, fmt.Sprintf("dominating guards give %s in %s", t, b)
	}
	return false, fmt.Sprintf("%s is only known to be in %s", t, b)
}

func typeRange(t types.Type) (int64, int64) {
	lo, hi := typeRangeOf(t)
	if lo == hi {
		return -1 << 62, 1 << 62
	}
	return lo, hi
}

func typeRangeOf(t types.Type) (int64, int64) {
	b, ok := t.Underlying().(*types.Basic)
	if !ok {
		return 0, 0
	}
	switch b.Kind() {
	case types.Int8:
		return -128, 127
	case types.Uint8:
		return 0, 255
	case types.Int16:
		return -32768, 32767
	case types.Uint16:
		return 0, 65535
	case types.Int32:
		return -(1 << 31), (1 << 31) - 1
	case types.Uint32:
		return 0, (1 << 32) - 1
	}
	return 0, 0
}

// fieldStore describes one `Field: value` of a config literal.
type fieldStore struct {
	Lit   *ssa.Alloc
	Field *types.Var
	Val   ssa.Value
	Store *ssa.Store
	Bind  *tableBinding // set when the store is the body of a loop over a constant local table: the row it stands for
}

func (pf *parserFacts) fieldStores(typ string) []fieldStore {
	var out []fieldStore
	var collect func(lit *ssa.Alloc, addr ssa.Value)
	collect = func(lit *ssa.Alloc, addr ssa.Value) {
		refs := addr.Referrers()
		if refs == nil {
			return
		}
		owner := ""
		if n, ok := deref(addr.Type()).(*types.Named); ok {
			owner = n.Obj().Name()
		}
		for _, r := range *refs {
			fa, ok := r.(*ssa.FieldAddr)
			if !ok || fa.X != addr {
				continue
			}
			f := fieldOfAddr(fa)
			if fr := fa.Referrers(); fr != nil {
				for _, rr := range *fr {
					if st, ok := rr.(*ssa.Store); ok && st.Addr == fa && owner == typ {
						out = append(out, fieldStore{lit, f, st.Val, st, nil})
					}
					// the field's address is a row entry of a constant local table: the loop over the table stores through it
					if st, ok := rr.(*ssa.Store); ok && st.Val == fa && owner == typ {
						for _, ts := range pf.tableStoresThrough(st) {
							out = append(out, fieldStore{lit, f, ts.Val, ts.Store, ts.Bind})
						}
					}
				}
			}
			if _, isStruct := f.Type().Underlying().(*types.Struct); isStruct {
				collect(lit, fa)
			}
		}
	}
	var keys []string
	for k := range pf.lits {
		if pf.inRegionKey(k) {
			keys = append(keys, k)
		}
	}
	sort.Strings(keys)
	seen := map[*ssa.Alloc]bool{}
	for _, k := range keys {
		for _, lit := range pf.lits[k] {
			if !seen[lit] {
				seen[lit] = true
				collect(lit, lit)
			}
		}
	}
	sort.Slice(out, func(i, j int) bool { return out[i].Store.Pos() < out[j].Store.Pos() })
	return out
}

// tableStoresThrough: st puts the address of a destination field into row i, column k of a constant local table; the
// stores `*e.k = v` in loops over that table are, for row i, stores into that field.
func (pf *parserFacts) tableStoresThrough(st *ssa.Store) []fieldStore {
	fa, ok := st.Addr.(*ssa.FieldAddr)
	if !ok {
		return nil
	}
	fn := st.Parent()
	var out []fieldStore
	for _, b := range fn.Blocks {
		for _, in := range b.Instrs {
			a, isAlloc := in.(*ssa.Alloc)
			if !isAlloc {
				continue
			}
			ct, ok := constTableOf(a)
			if !ok {
				continue
			}
			row := -1
			for i, r := range ct.rows {
				if r[fa.Field] == st.Val {
					row = i
				}
			}
			if row < 0 {
				continue
			}
			for _, b2 := range fn.Blocks {
				for _, in2 := range b2.Instrs {
					s2, isSt := in2.(*ssa.Store)
					if !isSt {
						continue
					}
					if ta, k, ok := elemFieldOf(s2.Addr); ok && ta == a && k == fa.Field {
						out = append(out, fieldStore{Val: s2.Val, Store: s2, Bind: &tableBinding{a, row}})
					}
				}
			}
		}
	}
	return out
}

// semantic bounds of destination fields (R10.2)
var configBounds = map[string]rng{
	"Key.Note": {0, 127}, "Key.ChannelOffset": {0, 15},
	"Analog.Note": {0, 127}, "Analog.NoteNeg": {0, 127}, "Analog.CC": {0, 119}, "Analog.CCNeg": {0, 119},
	"Analog.ChannelOffset": {0, 15}, "Analog.ChannelOffsetNeg": {0, 15},
	"Defaults.Velocity": {1, 127}, "Defaults.Channel": {1, 16},
}

// boundOK proves the semantic bound of every store into typ.field; returns per-site results.
type boundResult struct {
	Key, Pos, Why string
	OK            bool
}

func (pf *parserFacts) checkBounds(typ, field string) []boundResult {
	r := configBounds[typ+"."+field]
	var out []boundResult
	for _, fs := range pf.fieldStores(typ) {
		if fs.Field.Name() != field {
			continue
		}
		ok, why := pf.proveRange(fs.Val, fs.Store.Block(), r.lo, r.hi, 0)
		if !ok {
			// the entry may be filled in first and validated afterwards (the result is built right after decoding, the checks
			// follow): what counts is that the bound holds wherever the function hands out a configuration, i.e. at every
			// return whose error is nil (error returns hand out the zero Config, R10.5)
			fn := fs.Store.Parent()
			n, all := 0, true
			var w2 string
			// `cfg.V = raw` followed by `if cfg.V == k { cfg.V = d }` on the way to every success return: raw == k never
			// reaches the result, so raw only has to be in range or equal to k
			lo2, hi2 := r.lo, r.hi
			if fa, isFA := fs.Store.Addr.(*ssa.FieldAddr); isFA {
				if root, path := fieldPathOf(fa); root != nil {
					for _, s2 := range storesToPath(root, path) {
						k2, isK := s2.Val.(*ssa.Const)
						if s2 == fs.Store || !isK || k2.Value == nil || k2.Value.Kind() != constant.Int || k2.Int64() < r.lo || k2.Int64() > r.hi {
							continue
						}
						for _, a := range pf.view(fn).GuardsAt(s2.Block()) {
							if a.Instr == nil || !a.Taken {
								continue
							}
							bo, isBO := a.Instr.Cond.(*ssa.BinOp)
							if !isBO || bo.Op != token.EQL {
								continue
							}
							kc, isKC := bo.Y.(*ssa.Const)
							ld, isLd := bo.X.(*ssa.UnOp)
							if !isKC || !isLd || kc.Value == nil || kc.Value.Kind() != constant.Int {
								continue
							}
							lfa, isLFA := ld.X.(*ssa.FieldAddr)
							if !isLFA {
								continue
							}
							if r2, p2 := fieldPathOf(lfa); r2 != root || fmt.Sprint(p2) != fmt.Sprint(path) {
								continue
							}
							gb := a.Instr.Block()
							if !fs.Store.Block().Dominates(gb) {
								continue
							}
							onEveryWay := true
							for _, b := range fn.Blocks {
								if ret, isRet := b.Instrs[len(b.Instrs)-1].(*ssa.Return); isRet && b != fn.Recover && len(ret.Results) > 0 {
									if k, isK := ret.Results[len(ret.Results)-1].(*ssa.Const); isK && k.Value == nil && !gb.Dominates(b) {
										onEveryWay = false
									}
								}
							}
							if !onEveryWay {
								continue
							}
							switch kc.Int64() {
							case r.lo - 1:
								lo2 = r.lo - 1
							case r.hi + 1:
								hi2 = r.hi + 1
							}
						}
					}
				}
			}
			for _, b := range fn.Blocks {
				ret, isRet := b.Instrs[len(b.Instrs)-1].(*ssa.Return)
				if !isRet || b == fn.Recover || len(ret.Results) == 0 {
					continue
				}
				if k, isK := ret.Results[len(ret.Results)-1].(*ssa.Const); !isK || k.Value != nil {
					continue
				}
				if !fs.Store.Block().Dominates(b) {
					continue
				}
				n++
				if ok2, why2 := pf.proveRange(fs.Val, b, lo2, hi2, 0); !ok2 {
					all = false
				} else {
					w2 = why2
				}
			}
			if n > 0 && all {
				ok, why = true, "validated before the configuration is handed out: "+w2
			}
		}
		out = append(out, boundResult{
			Key: fmt.Sprintf("config.ParseData/%s{%s}[%s]", typ, field, pf.storeContext(fs)),
			Pos: pf.p.Pos(fs.Store.Pos()), Why: why, OK: ok,
		})
	}
	return out
}

// storeContext names the parser case a field store belongs to: the case in which the store itself is executed when the
// literal is one variable filled in by several cases, otherwise the case of its literal.  "-" for a store that every case
// shares (made before the switch).
func (pf *parserFacts) storeContext(fs fieldStore) string {
	if fs.Store != nil && fs.Store.Block() != fs.Lit.Block() {
		if s := pf.caseAt(fs.Store.Block()); s != "" {
			return s
		}
	}
	return pf.litContext(fs.Lit)
}

// caseAt: the string constant some guard of block at compares with ("" if none).
func (pf *parserFacts) caseAt(at *ssa.BasicBlock) string {
	vw := pf.view(at.Parent())
	for _, a := range vw.GuardsAt(at) {
		op, x, y, ok := normAtom(a)
		if !ok || op != "==" || !a.Taken {
			continue
		}
		if _, isC := x.IsConst(); isC {
			x, y = y, x
		}
		if s, isS := y.IsStringConst(); isS {
			return s
		}
	}
	return ""
}

// litContext names the parser case a literal belongs to (mapping type constant), for stable keys.
func (pf *parserFacts) litContext(lit *ssa.Alloc) string {
	at := lit.Block()
	for depth := 0; depth < 4 && at != nil; depth++ {
		vw := pf.view(at.Parent())
		for _, a := range vw.GuardsAt(at) {
			op, x, y, ok := normAtom(a)
			if !ok || op != "==" {
				continue
			}
			if _, isC := x.IsConst(); isC {
				x, y = y, x
			}
			if s, isS := y.IsStringConst(); isS {
				return s
			}
		}
		// a per-type helper: the case is selected at its only call site
		fn := topFunc(at.Parent())
		at = nil
		if fn != pf.fn && pf.region[fn] {
			if sites, ok := staticCallSites(pf.p, fn); ok && len(sites) == 1 {
				at = sites[0].Block()
			}
		}
	}
	// Key literals: distinguish numeric / named note
	if n, ok := deref(lit.Type()).(*types.Named); !ok || n.Obj().Name() != "Key" {
		return "-"
	}
	fields := compositeFields(lit)
	for f, v := range fields {
		if f.Name() == "Note" {
			if _, isConv := v.(*ssa.Convert); isConv {
				return "number"
			}
			return "name"
		}
	}
	return "-"
}

// ---- interprocedural facts for proofs on access paths ------------------------------------------------------------

// substTerm replaces every sub-term whose string is `from` by `to`.
func substTerm(t *Term, from string, to *Term) *Term {
	if t == nil {
		return nil
	}
	if t.String() == from {
		return to
	}
	if len(t.Args) == 0 {
		return t
	}
	changed := false
	args := make([]*Term, len(t.Args))
	for i, a := range t.Args {
		args[i] = substTerm(a, from, to)
		if args[i] != a {
			changed = true
		}
	}
	if !changed {
		return t
	}
	return &Term{Op: t.Op, Args: args, Aux: t.Aux, Obj: t.Obj, Type: t.Type, Cval: t.Cval}
}

// boundsInterproc: bounds of the access-path term t at block `at`, using
//
//	(1) the local guards and join hulls,
//	(2) validator facts: `if err := validate(x); err != nil { return }` - on the nil side everything that holds on
//	    every nil-error return of the (repository) callee holds for the arguments,
//	(3) for a term over a parameter of a helper: what holds at every static call site for the corresponding argument.
func (pf *parserFacts) boundsInterproc(at *ssa.BasicBlock, t *Term, init bound, depth int) bound {
	fn := at.Parent()
	vw := pf.view(fn)
	b := vw.BoundsAt(at, t.String(), init)
	if depth > 3 {
		return b
	}
	meet := func(x, y bound) bound {
		r := x
		if r.excluded == nil {
			r.excluded = map[int64]bool{}
		}
		if y.hasLo && (!r.hasLo || y.lo > r.lo) {
			r.lo, r.hasLo = y.lo, true
		}
		if y.hasHi && (!r.hasHi || y.hi < r.hi) {
			r.hi, r.hasHi = y.hi, true
		}
		for k := range y.excluded {
			r.excluded[k] = true
		}
		return tighten(r)
	}
	// (2) validators
	for _, a := range vw.GuardsAt(at) {
		if a.Instr == nil {
			continue
		}
		bo, ok := a.Instr.Cond.(*ssa.BinOp)
		if !ok || (bo.Op != token.NEQ && bo.Op != token.EQL) {
			continue
		}
		k, isK := bo.Y.(*ssa.Const)
		if !isK || k.Value != nil || !isErrorType(bo.X.Type()) {
			continue
		}
		nilSide := a.Taken == (bo.Op == token.EQL)
		if !nilSide {
			continue
		}
		// the error value: result of a call to a repository function
		var call *ssa.Call
		switch x := bo.X.(type) {
		case *ssa.Call:
			call = x
		case *ssa.Extract:
			call, _ = x.Tuple.(*ssa.Call)
		}
		if call == nil {
			continue
		}
		h := call.Call.StaticCallee()
		if h == nil || !pf.p.OwnedFunc(h) || len(h.Blocks) == 0 {
			continue
		}
		// translate t into h's parameter terms
		th := t
		hv := pf.view(h)
		for i, arg := range call.Call.Args {
			if i < len(h.Params) {
				th = substTerm(th, vw.Term(arg).String(), hv.Term(h.Params[i]))
			}
		}
		if th == t {
			continue
		}
		var hull *bound
		errIdx := h.Signature.Results().Len() - 1
		for _, hb := range h.Blocks {
			if hb == h.Recover {
				continue
			}
			r, ok := hb.Instrs[len(hb.Instrs)-1].(*ssa.Return)
			if !ok || errIdx < 0 || errIdx >= len(r.Results) {
				continue
			}
			if kc, isC := r.Results[errIdx].(*ssa.Const); !isC || kc.Value != nil {
				continue // an error return (or an error of unknown value: then nothing is claimed about it)
			}
			rb := pf.boundsInterproc(hb, th, init, depth+1)
			if hull == nil {
				cp := rb
				hull = &cp
				continue
			}
			if !(hull.hasLo && rb.hasLo) {
				hull.hasLo = false
			} else if rb.lo < hull.lo {
				hull.lo = rb.lo
			}
			if !(hull.hasHi && rb.hasHi) {
				hull.hasHi = false
			} else if rb.hi > hull.hi {
				hull.hi = rb.hi
			}
			hull.excluded = map[int64]bool{}
		}
		// the callee may also return a non-constant error that happens to be nil: then its guards are unknown
		nonConstErr := false
		for _, hb := range h.Blocks {
			if r, ok := hb.Instrs[len(hb.Instrs)-1].(*ssa.Return); ok && hb != h.Recover && errIdx >= 0 && errIdx < len(r.Results) {
				if _, isC := r.Results[errIdx].(*ssa.Const); !isC {
					if _, isErrorf := r.Results[errIdx].(*ssa.Call); !isErrorf {
						nonConstErr = true
					}
				}
			}
		}
		if hull != nil && !nonConstErr {
			b = meet(b, *hull)
		}
	}
	// (3) parameters of helpers: every call site
	if fn != pf.fn && fn.Parent() == nil && len(fn.Params) > 0 {
		mentions := -1
		for i, prm := range fn.Params {
			ps := vw.Term(prm).String()
			if t.Any(func(x *Term) bool { return x.String() == ps }) {
				mentions = i
			}
		}
		if mentions >= 0 {
			if sites, ok := staticCallSites(pf.p, fn); ok {
				var hull *bound
				for _, ci := range sites {
					if mentions >= len(ci.Common().Args) {
						hull = nil
						break
					}
					cv := pf.view(ci.Parent())
					tc := substTerm(t, vw.Term(fn.Params[mentions]).String(), cv.Term(ci.Common().Args[mentions]))
					cb := pf.boundsInterproc(ci.Block(), tc, init, depth+1)
					if hull == nil {
						cp := cb
						hull = &cp
						continue
					}
					if !(hull.hasLo && cb.hasLo) {
						hull.hasLo = false
					} else if cb.lo < hull.lo {
						hull.lo = cb.lo
					}
					if !(hull.hasHi && cb.hasHi) {
						hull.hasHi = false
					} else if cb.hi > hull.hi {
						hull.hi = cb.hi
					}
					hull.excluded = map[int64]bool{}
				}
				if hull != nil {
					b = meet(b, *hull)
				}
			}
		}
	}
	return b
}

// leafVal is a scalar a struct field (array element) was built from, with the block in which that scalar is evaluated.
type leafVal struct {
	v  ssa.Value
	at *ssa.BasicBlock
	// or: element idx of an entry of the container held in Device field elemOf (checked against the container invariant)
	elemOf *types.Var
	idx    int64
}

// componentLeaves resolves "component sel of aggregate s" (sel: a struct field, or a constant array index) to the scalar
// values it can hold, looking through local composite literals, value-returning helpers, parameters (every static call
// site) and phis.  ok == false when some source is not understood.
func (pf *parserFacts) componentLeaves(s ssa.Value, field *types.Var, index int64, depth int) ([]leafVal, bool) {
	if depth > 8 || s == nil {
		return nil, false
	}
	switch x := s.(type) {
	case *ssa.Const:
		// the zero value of an aggregate (`return voice{}, false`): every component is zero
		if x.Value == nil {
			return []leafVal{{v: x}}, true
		}
		return nil, false
	case *ssa.ChangeType:
		return pf.componentLeaves(x.X, field, index, depth+1)
	case *ssa.Phi:
		var out []leafVal
		for _, e := range x.Edges {
			l, ok := pf.componentLeaves(e, field, index, depth+1)
			if !ok {
				return nil, false
			}
			out = append(out, l...)
		}
		return out, true
	case *ssa.Parameter:
		sites, ok := staticCallSites(pf.p, x.Parent())
		if !ok || len(sites) == 0 {
			return nil, false
		}
		idx := paramIndex(x)
		var out []leafVal
		for _, ci := range sites {
			if idx < 0 || idx >= len(ci.Common().Args) {
				return nil, false
			}
			l, ok := pf.componentLeaves(ci.Common().Args[idx], field, index, depth+1)
			if !ok {
				return nil, false
			}
			out = append(out, l...)
		}
		return out, true
	case *ssa.Call:
		callee := x.Call.StaticCallee()
		if callee == nil || !pf.p.OwnedFunc(callee) || callee.Blocks == nil || callee.Signature.Results().Len() != 1 {
			return nil, false
		}
		var out []leafVal
		for _, b := range callee.Blocks {
			if r, isRet := b.Instrs[len(b.Instrs)-1].(*ssa.Return); isRet && b != callee.Recover {
				l, ok := pf.componentLeaves(r.Results[0], field, index, depth+1)
				if !ok {
					return nil, false
				}
				out = append(out, l...)
			}
		}
		return out, len(out) > 0
	case *ssa.Extract, *ssa.Lookup, *ssa.Index:
		// one of several results of a helper (`v, ok := d.voiceFor(..)`): that result at every return
		if ex, isEx := s.(*ssa.Extract); isEx {
			if call, isCall := ex.Tuple.(*ssa.Call); isCall {
				callee := call.Call.StaticCallee()
				if callee == nil || !pf.p.OwnedFunc(callee) || callee.Blocks == nil {
					return nil, false
				}
				var out []leafVal
				for _, b := range callee.Blocks {
					if r, isRet := b.Instrs[len(b.Instrs)-1].(*ssa.Return); isRet && b != callee.Recover && ex.Index < len(r.Results) {
						l, ok := pf.componentLeaves(r.Results[ex.Index], field, index, depth+1)
						if !ok {
							return nil, false
						}
						out = append(out, l...)
					}
				}
				return out, len(out) > 0
			}
		}
		// an entry of a container with an element invariant (tracker[key], its comma-ok form, the value of a range)
		if field == nil && index >= 0 {
			for f := range pf.elemInv {
				if derivesFromField(s, f, map[ssa.Value]bool{}) {
					return []leafVal{{elemOf: f, idx: index}}, true
				}
			}
		}
		return nil, false
	case *ssa.UnOp:
		if x.Op != token.MUL {
			return nil, false
		}
		a, ok := x.X.(*ssa.Alloc)
		if !ok {
			return nil, false
		}
		return pf.allocLeaves(a, field, index, depth+1)
	}
	return nil, false
}

// allocLeaves: the scalars component sel of the local variable a can hold: every value stored to that component directly and
// the same component of every aggregate stored to the variable as a whole (flow-insensitive: any of them may be current).
// The variable's address must be used for nothing but component addressing, loads and stores.
func (pf *parserFacts) allocLeaves(a *ssa.Alloc, field *types.Var, index int64, depth int) ([]leafVal, bool) {
	if depth > 8 {
		return nil, false
	}
	// two locals assigned to each other (`driven, resting = resting, driven`): the cycle adds no value of its own
	if pf.leavesBusy == nil {
		pf.leavesBusy = map[*ssa.Alloc]bool{}
	}
	if pf.leavesBusy[a] {
		return nil, true
	}
	pf.leavesBusy[a] = true
	defer delete(pf.leavesBusy, a)
	var found []leafVal
	for _, r := range *a.Referrers() {
		switch y := r.(type) {
		case *ssa.FieldAddr:
			if field == nil || deref(y.X.Type()).Underlying().(*types.Struct).Field(y.Field) != field {
				continue
			}
			for _, rr := range *y.Referrers() {
				switch z := rr.(type) {
				case *ssa.Store:
					if z.Addr == ssa.Value(y) {
						found = append(found, leafVal{v: z.Val, at: z.Block()})
					}
				case *ssa.UnOp:
				default:
					return nil, false // the component's address escapes
				}
			}
		case *ssa.IndexAddr:
			k, isK := y.Index.(*ssa.Const)
			if field != nil {
				continue
			}
			if !isK {
				for _, rr := range *y.Referrers() {
					if _, isStore := rr.(*ssa.Store); isStore {
						return nil, false // a store through a computed index
					}
				}
				continue
			}
			if k.Int64() != index {
				continue
			}
			for _, rr := range *y.Referrers() {
				switch z := rr.(type) {
				case *ssa.Store:
					if z.Addr == ssa.Value(y) {
						found = append(found, leafVal{v: z.Val, at: z.Block()})
					}
				case *ssa.UnOp:
				default:
					return nil, false
				}
			}
		case *ssa.Store:
			if y.Addr != ssa.Value(a) {
				return nil, false // the variable's address is stored somewhere
			}
			l, ok := pf.componentLeaves(y.Val, field, index, depth+1)
			if !ok {
				return nil, false
			}
			found = append(found, l...)
		case *ssa.UnOp, *ssa.DebugRef:
		default:
			return nil, false // passed to a call, captured, ...
		}
	}
	if len(found) == 0 {
		return nil, false
	}
	return found, true
}

// consumers: the blocks in which the local literal lit is read as a whole (stored into the configuration, returned).
func consumers(lit *ssa.Alloc) []*ssa.BasicBlock {
	var out []*ssa.BasicBlock
	for _, r := range *lit.Referrers() {
		if ld, ok := r.(*ssa.UnOp); ok && ld.Op == token.MUL && ld.X == ssa.Value(lit) {
			out = append(out, ld.Block())
		}
	}
	return out
}

// reachesAvoiding: is some block of targets reachable from `from` without using the CFG edge cutFrom -> cutTo?
func reachesAvoiding(from *ssa.BasicBlock, targets []*ssa.BasicBlock, cutFrom, cutTo *ssa.BasicBlock) bool {
	want := map[*ssa.BasicBlock]bool{}
	for _, t := range targets {
		want[t] = true
	}
	seen := map[*ssa.BasicBlock]bool{}
	var rec func(b *ssa.BasicBlock) bool
	rec = func(b *ssa.BasicBlock) bool {
		if want[b] {
			return true
		}
		if seen[b] {
			return false
		}
		seen[b] = true
		for _, s := range b.Succs {
			if b == cutFrom && s == cutTo {
				continue
			}
			if rec(s) {
				return true
			}
		}
		return false
	}
	return rec(from)
}

// funcPkgPath: the import path of the package a function was written in (for an instantiation: that of the generic function).
func funcPkgPath(fn *ssa.Function) string {
	f := fn
	for f.Parent() != nil {
		f = f.Parent()
	}
	if o := f.Origin(); o != nil {
		f = o
	}
	if f.Pkg != nil && f.Pkg.Pkg != nil {
		return f.Pkg.Pkg.Path()
	}
	if obj := f.Object(); obj != nil && obj.Pkg() != nil {
		return obj.Pkg().Path()
	}
	return ""
}
