package main

// floorCounts: for rules without their own MinCount (mostly rule sets imported from another property), the number of
// obligations below which the rule is considered to pass vacuously in that property: about half of what the reviewed tree
// yields (a behaviour-preserving rewrite changes the number of paths or sites, it does not make them disappear).
var floorCounts = map[string]map[string]int{
	"C01": {"R1.6": 1, "R1.8": 2, "R1.9": 9},
	"C02": {"R2.1a": 6, "R2.1b": 6, "R2.2": 2},
	"C03": {"R3.3a": 6, "R3.3b": 6, "R3.3c": 4, "R3.4": 5, "R3.5": 1, "R3.6": 6},
	"C04": {"R4.5": 1, "R4.8b": 2, "R4.9": 1},
	"C05": {"R5.5": 2, "R5.7": 1},
	"C06": {"R6.8": 1, "R6.9": 2},
	"C07": {"R7.6": 1},
	"C08": {"R8.2a": 6, "R8.2b": 6, "R8.2c": 2, "R8.6": 2, "R8.7": 1, "R8.8": 4},
	"C09": {"R9.10": 10},
	"C10": {"R10.1c": 1, "R10.6": 2, "R10.9": 3},
	"C11": {"R11.3": 1, "R11.6": 1},
	"C13": {"R13.4": 1, "R13.6": 1, "R13.7": 6, "R13.8": 2},
	"C14": {"R14.5": 1},
	"C15": {"R15.6": 1},
	"C16": {"R16.6": 2, "R16.7": 4},
	"C17": {"R17.8": 4},
	"C18": {"R18.2": 1, "R18.3": 1, "R18.4": 1},
	"C19": {"R19.6": 1},
	"C20": {"R20.3": 1, "R20.6": 1},
}

func applyFloors(c *Ctx) {
	for rule, min := range floorCounts[c.Property] {
		c.MinCount(rule, min)
	}
}
