package main

import (
	"fmt"
	"go/constant"
	"go/token"
	"go/types"
	"os"
	"sort"
	"strings"

	"golang.org/x/tools/go/ssa"
)

func init() {
	registry["C01"] = checkC01
}

var trackerWriters = map[string]map[string]string{
	"noteTracker": {
		"NewDevice": "creates the empty tracker", "NoteOn": "records the emitted (note, channel) under the key code",
		"NoteOff": "deletes the released key's entry",
	},
	"activeNotesCounter": {
		"NewDevice": "initialises all 16x128 counters to 0", "NoteOn": "one increment per recorded press",
		"NoteOff": "one decrement per tracked release",
	},
	"analogNoteTracker": {
		"NewDevice": "creates the empty tracker", "AnalogNoteOn": "records the emitted (note, channel) under the axis identifier",
		"AnalogNoteOff": "deletes the released direction's entry",
	},
}

func checkC01(c *Ctx) {
	dv := newDev(c, "R1.0")
	if !dv.ok || !dv.need("R1.0", []string{"NoteOn", "NoteOff", "AnalogNoteOn", "AnalogNoteOff", "handleKEYEvent", "handleABSEvent", "ProcessEvents", "NewDevice"},
		[]string{"noteTracker", "activeNotesCounter", "analogNoteTracker", "outputEvents"}) {
		return
	}
	modes := collisionModes(c, "R1.6")
	ruleR11(c, dv, modes, "R1.1")
	ruleR12(c, dv, modes, "R1.2")
	ruleR13(c, dv, "R1.3")
	ruleR14(c, dv, "R1.4")
	ruleR14analog(c, dv, "R1.4")
	ruleR15(c, dv, "R1.5")
	ruleR16(c, dv, modes, "R1.6")
	ruleDispatch(c, dv, "R1.8", true, true)
	c.importRules(transportRules, []string{"R15.1", "R15.2", "R15.5", "R15.7"}, "R1.9") // a Note Off swallowed or altered on the way to the port leaves the note sounding
	c.importRules(emulationReachRules, []string{"R8.9"}, "R1.10")                       // an emulated key always sees its return to centre (no filter in front of the type switch swallows it)
	ruleCounterInit(c, dv, "R1.7")                                                      // one zeroed holder count per (channel, note): a shared table makes the last-holder test wrong and the Note Off is withheld
	c.MinCount("R1.1", 8)
	c.MinCount("R1.2", 8)
	c.MinCount("R1.3", 8)
	c.MinCount("R1.4", 2)
	c.MinCount("R1.5", 4)
	c.DecidedClause("every path of NoteOn/AnalogNoteOn that emits a Note On records exactly that (note, channel) under the key and counts it; every path of NoteOff/AnalogNoteOff that finds a tracker entry deletes it, decrements once and emits only Note Off for the recorded pair")
	c.DecidedClause("only NewDevice/NoteOn/NoteOff/AnalogNoteOn/AnalogNoteOff write the trackers")
	c.DecidedClause("every release path of the key handler either calls NoteOff or has seen that the key is not tracked (mapping switched while held)")
	c.DecidedClause("the disconnect clean-up iterates both trackers and releases each entry on every path from the end of the input loop to return")
	c.DecidedClause("collision-mode case sets of NoteOn and NoteOff equal the supported-mode table")
	c.UndecidedClause("that the kernel alternates press and release per key (assumed as in the property)")
	c.UndecidedClause("blocking of sends on the output channel; two sub-handlers sharing one axis code")
	c.Assumption("config.Config values reach Device only through ParseData (checked in C10), so CollisionMode is one of the supported constants")
}

// collisionModes reads config.SupportedCollisionModes from syntax.
func collisionModes(c *Ctx, rule string) []string {
	keys, _, _, _, ok := c.P.mapLiteral(pkgConfig, "SupportedCollisionModes")
	if !c.Require(ok && len(keys) > 0, rule, "anchor:config.SupportedCollisionModes", "map literal config.SupportedCollisionModes not found") {
		return nil
	}
	return constStrings(keys)
}

func sameTerm(a, b *Term) bool { return a != nil && b != nil && a.String() == b.String() }

// ruleR11: record-what-you-emit in NoteOn and AnalogNoteOn.
func ruleR11(c *Ctx, dv *dev, modes []string, rule string) {
	for _, spec := range []struct {
		fn, tracker string
		counted     bool
	}{{"NoteOn", "noteTracker", true}, {"AnalogNoteOn", "analogNoteTracker", false}} {
		m := dv.noteModel(spec.fn, spec.tracker)
		if !c.Require(m.err == nil, rule, "device."+spec.fn, fmt.Sprint(m.err)) {
			continue
		}
		for i, np := range m.paths {
			key := fmt.Sprintf("device.%s/path[mode=%s,%s,sends=%s]", spec.fn, np.Mode, guardKey(dv, np), np.kinds())
			pos := c.P.Pos(m.fn.Pos())
			_ = i
			if np.Panics {
				// the default branch of the mode switch: unreachable for supported modes (R1.6)
				if np.allModesNegated(modes) && len(np.Sends) == 0 && len(np.TrackSets) == 0 {
					c.Trivial(rule, key+"/unsupported-mode-panic", pos, "panic path excludes every supported mode and has no effect")
				} else {
					c.Bad(rule, key, pos, "a panic is reachable on a path that a supported collision mode can take")
				}
				continue
			}
			if len(np.OtherSends) > 0 {
				c.Bad(rule, key, c.P.Pos(np.OtherSends[0].Instr.Pos()), "sends on a channel other than outputEvents: "+np.OtherSends[0].String())
				continue
			}
			var on []midiEvent
			bad := ""
			for _, s := range np.Sends {
				if !s.ok {
					bad = "emits a value that is not a recognisable 3-byte event: " + s.Raw.String()
				}
				if s.Kind == midiNoteOn {
					on = append(on, s)
				}
			}
			if bad != "" {
				c.Bad(rule, key, pos, bad)
				continue
			}
			if len(np.TrackSets) == 0 && (!spec.counted || len(np.CtrSets) == 0) {
				if np.Mode != "" {
					c.Bad(rule, key, pos, fmt.Sprintf("a press that reached collision mode %q returns without recording the key as a holder (tracker entry + counter): the pitch is released while this key still holds it, and this key's release emits nothing", np.Mode))
				} else if len(np.Sends) == 0 && len(np.OtherWrites) == 0 {
					c.OK(rule, key, pos, "early return: nothing emitted, nothing recorded")
				} else {
					c.Bad(rule, key, pos, fmt.Sprintf("path emits %s (or writes state) but records nothing in %s: the release could never find it", np.kinds(), spec.tracker))
				}
				continue
			}
			if len(np.TrackSets) != 1 || (spec.counted && len(np.CtrSets) != 1) {
				c.Bad(rule, key, pos, fmt.Sprintf("expected exactly one %s entry and one counter increment together, found %d and %d", spec.tracker, len(np.TrackSets), len(np.CtrSets)))
				continue
			}
			ts := np.TrackSets[0]
			val := ts.Args[2]
			if val.Op != "array" || len(val.Args) != 2 {
				c.Bad(rule, key, c.P.Pos(ts.Instr.Pos()), "tracker value is not a (note, channel) pair: "+val.String())
				continue
			}
			tn, tch := val.Args[0], val.Args[1]
			if len(on) > 1 {
				c.Bad(rule, key, pos, "more than one Note On emitted on one path")
				continue
			}
			if len(on) == 1 {
				if !sameTerm(on[0].B1, tn) || !sameTerm(on[0].Channel, tch) {
					c.Bad(rule, key, c.P.Pos(ts.Instr.Pos()), fmt.Sprintf("recorded pair (%s, %s) differs from the emitted Note On (%s, %s)", tn, tch, on[0].B1, on[0].Channel))
					continue
				}
			}
			// every other emitted event (the interrupting Note Off) must concern the same pair
			okAll := true
			for _, s := range np.Sends {
				if !sameTerm(s.B1, tn) || !sameTerm(s.Channel, tch) {
					okAll = false
				}
			}
			if !okAll {
				c.Bad(rule, key, pos, "an emitted event concerns a different (note, channel) than the one recorded")
				continue
			}
			if spec.counted {
				cs := np.CtrSets[0]
				ch, _ := dv.isCounterInner(cs.Args[0])
				if !sameTerm(ch, tch) || !sameTerm(cs.Args[1], tn) {
					c.Bad(rule, key, c.P.Pos(cs.Instr.Pos()), fmt.Sprintf("counter updated for (%s, %s) but recorded pair is (%s, %s)", cs.Args[1], ch, tn, tch))
					continue
				}
				if !isIncDec(cs, +1) {
					c.Bad(rule, key, c.P.Pos(cs.Instr.Pos()), "counter update is not `counter[ch][n] + 1`: "+cs.Args[2].String())
					continue
				}
			}
			// the key of the tracker entry
			if spec.fn == "NoteOn" {
				// the key identifies the pressed key exactly as the mapping does (sub-handler and code), injectively
				id := identOf(ts.Args[1])
				if miss, ok := id.covers(dv.mappingKeyNeed("handleKEYEvent", "Midi")); !ok {
					c.Bad(rule, key, c.P.Pos(ts.Instr.Pos()), fmt.Sprintf("tracker key %s omits %s, which the mapping lookup uses to tell keys apart: two keys that differ only in it share one tracker entry, the second press overwrites the first and one of the notes is never released", ts.Args[1], miss))
					continue
				}
				if !id.injective {
					c.Bad(rule, key, c.P.Pos(ts.Instr.Pos()), "tracker key is not an injective function of the key's identity ("+id.why+"): "+ts.Args[1].String())
					continue
				}
			} else if ts.Args[1].Op != "param" {
				c.Bad(rule, key, c.P.Pos(ts.Instr.Pos()), "analog tracker key is not the identifier parameter: "+ts.Args[1].String())
				continue
			}
			if len(on) == 0 && !(np.Mode != "" && np.Mode != "off") {
				c.Bad(rule, key, pos, "holder recorded without a Note On outside a managed collision mode")
				continue
			}
			if len(np.OtherWrites) > 0 {
				c.Bad(rule, key, c.P.Pos(np.OtherWrites[0].Instr.Pos()), "unexpected state write on a note path: "+np.OtherWrites[0].String())
				continue
			}
			c.OK(rule, key, pos, fmt.Sprintf("emits %s for (%s, %s); tracker[%s]=that pair; counter+1 for that pair", np.kinds(), tn, tch, ts.Args[1]))
		}
	}
}

func guardKey(dv *dev, np *notePath) string {
	b, _, ok := dv.counterBound(np.P)
	if !ok {
		return "guard=-"
	}
	return "counter" + b.String()
}

func isEventCode(t *Term) bool {
	// ev.Event.Code where ev is a parameter (or the alloc'd event of the clean-up loop)
	t = t.StripConv()
	if t.Op != "load" {
		return false
	}
	a := t.Args[0]
	if a.Op != "fieldaddr" || a.Obj.Name() != "Code" {
		return false
	}
	a = a.Args[0]
	if a.Op != "fieldaddr" || a.Obj.Name() != "Event" {
		return false
	}
	return a.Args[0].Op == "param"
}

// isIncDec: mapset value is lookup(sameMap, sameKey) ± 1
func isIncDec(e Effect, delta int64) bool {
	v := e.Args[2]
	if v.Op != "binop" {
		return false
	}
	x, y := v.Args[0], v.Args[1]
	n, ok := y.IsIntConst()
	if !ok {
		return false
	}
	switch v.Aux {
	case "+":
	case "-":
		n = -n
	default:
		return false
	}
	if n != delta {
		return false
	}
	return x.Op == "lookup" && sameTerm(x.Args[0], e.Args[0]) && sameTerm(x.Args[1], e.Args[1])
}

// ruleR12: release-what-was-recorded in NoteOff and AnalogNoteOff.
func ruleR12(c *Ctx, dv *dev, modes []string, rule string) {
	for _, spec := range []struct {
		fn, tracker string
		counted     bool
	}{{"NoteOff", "noteTracker", true}, {"AnalogNoteOff", "analogNoteTracker", false}} {
		m := dv.noteModel(spec.fn, spec.tracker)
		if !c.Require(m.err == nil, rule, "device."+spec.fn, fmt.Sprint(m.err)) {
			continue
		}
		pos := c.P.Pos(m.fn.Pos())
		sawMiss, sawHit := false, false
		for _, np := range m.paths {
			key := fmt.Sprintf("device.%s/path[hit=%s,mode=%s,%s,sends=%s]", spec.fn, hitStr(np.TrackerHit), np.Mode, guardKey(dv, np), np.kinds())
			if np.Panics {
				c.Bad(rule, key, pos, "release path can panic")
				continue
			}
			if np.TrackerHit == nil {
				c.Bad(rule, key, pos, "release path does not test the tracker with a comma-ok lookup of the key")
				continue
			}
			if !*np.TrackerHit {
				sawMiss = true
				if len(np.Sends)+len(np.OtherSends)+len(np.TrackDels)+len(np.TrackSets)+len(np.CtrSets)+len(np.OtherWrites) == 0 {
					c.OK(rule, key, pos, "untracked key: nothing emitted, nothing changed")
				} else {
					c.Bad(rule, key, pos, "tracker miss path emits or writes state")
				}
				continue
			}
			sawHit = true
			if spec.counted && np.Mode == "" && np.allModesNegated(modes) {
				c.Trivial(rule, key+"/unsupported-mode", pos, "path excludes every supported mode: infeasible for parser-built configurations (R1.6, C10)")
				continue
			}
			// the entry that was looked up
			var entry *Term
			for _, a := range np.P.Atoms {
				cnd := a.Cond
				for cnd.Op == "unop" {
					cnd = cnd.Args[0]
				}
				if cnd.Op == "lookupok" && dv.isFieldLoad(cnd.Args[0], spec.tracker) {
					entry = &Term{Op: "lookup", Args: cnd.Args, Aux: cnd.Aux}
				}
			}
			n := &Term{Op: "index", Args: []*Term{entry, intConst(0)}}
			ch := &Term{Op: "index", Args: []*Term{entry, intConst(1)}}
			if spec.fn == "NoteOff" {
				if want, ok := dv.pressKeyIdent("NoteOn", spec.tracker); ok && identOf(entry.Args[1]).canon != want.canon {
					c.Bad(rule, key, pos, fmt.Sprintf("the release looks the key up as %s but the press recorded it as %s: the entry of the press is not found", identOf(entry.Args[1]).canon, want.canon))
					continue
				}
			}
			if len(np.TrackDels) != 1 || !sameTerm(np.TrackDels[0].Args[1], entry.Args[1]) {
				c.Bad(rule, key, pos, fmt.Sprintf("expected exactly one delete(%s, <the looked-up key>), found %d", spec.tracker, len(np.TrackDels)))
				continue
			}
			if len(np.TrackSets) > 0 || len(np.OtherWrites) > 0 || len(np.OtherSends) > 0 {
				c.Bad(rule, key, pos, "release path writes other state or sends elsewhere")
				continue
			}
			if spec.counted {
				if len(np.CtrSets) != 1 {
					c.Bad(rule, key, pos, fmt.Sprintf("expected exactly one counter decrement, found %d", len(np.CtrSets)))
					continue
				}
				cs := np.CtrSets[0]
				cch, _ := dv.isCounterInner(cs.Args[0])
				if !sameTerm(cch, ch) || !sameTerm(cs.Args[1], n) || !isIncDec(cs, -1) {
					c.Bad(rule, key, c.P.Pos(cs.Instr.Pos()), fmt.Sprintf("counter update is not counter[entry.channel][entry.note] - 1: counter[%s][%s] = %s", cch, cs.Args[1], cs.Args[2]))
					continue
				}
			}
			bad := ""
			for _, s := range np.Sends {
				if !s.ok || s.Kind != midiNoteOff {
					bad = "release emits something that is not a Note Off: " + s.Raw.String()
				} else if !sameTerm(s.Channel, ch) || !sameTerm(s.B1, n) {
					bad = fmt.Sprintf("Note Off carries (%s, %s), not the recorded pair (%s, %s)", s.B1, s.Channel, n, ch)
				} else if k, ok := s.B2.IsIntConst(); !ok || k != 0 {
					bad = "Note Off velocity is not the constant 0"
				}
			}
			if len(np.Sends) > 1 {
				bad = "more than one message on a release path"
			}
			if !spec.counted && len(np.Sends) != 1 {
				bad = "tracked analog direction released without exactly one Note Off"
			}
			if bad != "" {
				c.Bad(rule, key, pos, bad)
				continue
			}
			c.OK(rule, key, pos, fmt.Sprintf("tracked key: delete entry, counter-1, emits %s from the entry", np.kinds()))
		}
		c.Check(sawMiss && sawHit, rule, "device."+spec.fn+"/both-outcomes", pos, "tracker lookup has a hit and a miss path", "tracker lookup outcome not found on the paths")
	}
}

func hitStr(b *bool) string {
	if b == nil {
		return "?"
	}
	if *b {
		return "y"
	}
	return "n"
}

// ruleR13: who may write the trackers.
func ruleR13(c *Ctx, dv *dev, rule string) {
	for _, fname := range []string{"noteTracker", "activeNotesCounter", "analogNoteTracker"} {
		f := dv.fields[fname]
		sites := c.P.writersOfField(f)
		seen := map[string]bool{}
		for _, s := range sites {
			top := topFunc(s.Fn)
			if o := dv.ownerOf(s.Fn); o != top { // a newly extracted helper writes on behalf of its only caller
				top = o
			} else if s.Fn != top {
				top = nil // closures of the owners are not owners
			}
			name := ""
			if top != nil {
				name = dv.refName(top)
			}
			key := fmt.Sprintf("write(Device.%s)@%s", fname, shortFn(s.Fn))
			if reason, ok := trackerWriters[fname][name]; ok && top != nil && top.Pkg != nil && top.Pkg.Pkg.Path() == pkgDevice {
				if !seen[key] {
					seen[key] = true
					c.OK(rule, key, c.P.Pos(s.Instr.Pos()), "allowed writer: "+reason)
				}
				continue
			}
			c.Bad(rule, key, c.P.Pos(s.Instr.Pos()), fmt.Sprintf("%s of Device.%s outside its owners (NewDevice, note on/off functions): the tracker would no longer mean 'what is sounding'", s.What, fname))
		}
	}
}

// releaseConsistent: the path's atoms on `ie.Event.Value` are satisfiable by Value == want.
func valueConsistent(p *Path, want int64) bool {
	for _, a := range p.Atoms {
		op, x, y, ok := normAtom(a)
		if !ok {
			continue
		}
		if _, isC := x.IsConst(); isC {
			x, y = y, x
			op = flipOp(op)
		}
		k, isK := y.IsIntConst()
		if !isK || !isEventValue(x) {
			continue
		}
		var holds bool
		switch op {
		case "==":
			holds = want == k
		case "!=":
			holds = want != k
		case "<":
			holds = want < k
		case "<=":
			holds = want <= k
		case ">":
			holds = want > k
		case ">=":
			holds = want >= k
		}
		if !holds {
			return false
		}
	}
	return true
}

func isEventValue(t *Term) bool {
	t = t.StripConv()
	if t.Op != "load" {
		return false
	}
	a := t.Args[0]
	if a.Op != "fieldaddr" || a.Obj.Name() != "Value" {
		return false
	}
	a = a.Args[0]
	return a.Op == "fieldaddr" && a.Obj.Name() == "Event"
}

// keyHandlerPaths enumerates handleKEYEvent with only the small helpers inlined.
func keyHandlerPaths(c *Ctx, dv *dev) ([]*Path, error) {
	fn := dv.fn["handleKEYEvent"]
	c.Fn(shortFn(fn))
	only := map[*ssa.Function]bool{}
	for _, n := range []string{"checkExitSequence"} {
		if dv.fn[n] != nil {
			only[dv.fn[n]] = true
		}
	}
	paths, err := Enumerate(fn, SymConfig{Prog: c.P, MaxDepth: 3, Collapse: true, OnlyInline: dv.withHelpers(only)})
	c.Paths += len(paths)
	return paths, err
}

// ruleR14: a release always consults the tracker.
func ruleR14(c *Ctx, dv *dev, rule string) {
	paths, err := keyHandlerPaths(c, dv)
	if !c.Require(err == nil, rule, "device.handleKEYEvent", fmt.Sprint(err)) {
		return
	}
	fn := dv.fn["handleKEYEvent"]
	actionMapping := dv.cfgField["ActionMapping"]
	pressCanon := ""
	if id, ok := dv.pressKeyIdent("NoteOn", "noteTracker"); ok {
		pressCanon = id.canon
	}
	groups := map[string][]*Path{}
	for _, p := range paths {
		if !valueConsistent(p, 0) {
			continue // not a release
		}
		// action keys are configuration-wide (not per mapping): such a key never started a note
		isAction := false
		for _, a := range p.Atoms {
			cnd := a.Cond
			taken := a.Taken
			for cnd.Op == "unop" {
				cnd, taken = cnd.Args[0], !taken
			}
			if cnd.Op == "lookupok" && cnd.Args[0].LoadsField(actionMapping) && taken {
				isAction = true
			}
		}
		if isAction {
			continue
		}
		calls := p.Calls(dv.fn["NoteOff"])
		miss := false
		for _, a := range p.Atoms {
			cnd := a.Cond
			taken := a.Taken
			for cnd.Op == "unop" {
				cnd, taken = cnd.Args[0], !taken
			}
			if cnd.Op == "lookupok" && dv.isFieldLoad(cnd.Args[0], "noteTracker") && !taken && identOf(cnd.Args[1]).canon == pressCanon {
				miss = true
			}
		}
		noteOk := "?"
		for _, a := range p.Atoms {
			cnd := a.Cond
			taken := a.Taken
			for cnd.Op == "unop" {
				cnd, taken = cnd.Args[0], !taken
			}
			if cnd.Op == "lookupok" && cnd.Args[0].LoadsField(dv.fields["mapping"]) {
				noteOk = fmt.Sprint(taken)
			}
		}
		k := fmt.Sprintf("device.handleKEYEvent/release[mappedNow=%s]", noteOk)
		switch {
		case len(calls) == 1 && calls[0].Args[1].Op == "param":
			groups[k+"/ok:calls NoteOff"] = append(groups[k+"/ok:calls NoteOff"], p)
		case len(calls) == 0 && miss:
			groups[k+"/ok:tracker miss"] = append(groups[k+"/ok:tracker miss"], p)
		default:
			groups[k+"/bad"] = append(groups[k+"/bad"], p)
		}
	}
	// the exemption of action keys above rests on "an action key never starts a note": every press path that reaches
	// NoteOn has seen the key absent from the (mapping-independent) action table
	nPress, badPress := 0, ""
	for _, p := range paths {
		if len(p.Calls(dv.fn["NoteOn"])) == 0 {
			continue
		}
		nPress++
		notAction := false
		for _, a := range p.Atoms {
			cnd, taken := a.Cond, a.Taken
			for cnd.Op == "unop" {
				cnd, taken = cnd.Args[0], !taken
			}
			if cnd.Op == "lookupok" && cnd.Args[0].LoadsField(actionMapping) && !taken {
				notAction = true
			}
		}
		if !notAction {
			badPress = "a press reaches NoteOn without the key having been found absent from the action table: a key that is an action everywhere but a note in one mapping gets tracked, and its release (after a mapping switch) takes the action path that never consults the tracker - the note is never released. e.g. " + atomsString(p)
		}
	}
	if nPress > 0 {
		c.Check(badPress == "", rule, "device.handleKEYEvent/notes-only-for-non-action-keys", c.P.Pos(fn.Pos()), fmt.Sprintf("%d press path(s) reach NoteOn, all with the key absent from the action table", nPress), badPress)
	}
	for _, k := range sortedKeys(groups) {
		ps := groups[k]
		base, verdict, _ := strings.Cut(k, "/ok:")
		if strings.HasSuffix(k, "/bad") {
			c.Bad(rule, strings.TrimSuffix(k, "/bad"), c.P.Pos(fn.Pos()),
				fmt.Sprintf("%d release path(s) of a non-action key neither call NoteOff(ie) nor have seen noteTracker[code] missing: a key held across a mapping switch keeps sounding. e.g. %s", len(ps), atomsString(ps[0])))
		} else {
			c.OK(rule, base+"/"+verdict, c.P.Pos(fn.Pos()), fmt.Sprintf("%d path(s): %s", len(ps), verdict))
		}
	}
}

func atomsString(p *Path) string {
	var as []string
	for _, a := range p.Atoms {
		as = append(as, a.String())
	}
	return strings.Join(as, " && ")
}

// absPaths enumerates handleABSEvent with value-only diamonds collapsed and nothing inlined.
func absPaths(c *Ctx, dv *dev) ([]*Path, error) {
	fn := dv.fn["handleABSEvent"]
	c.Fn(shortFn(fn))
	only := map[*ssa.Function]bool{}
	for f := range dv.ctors {
		only[f] = true
	}
	dv.withHelpers(only) // value-only helpers (e.g. an extracted scaling function) and newly extracted helpers are seen through
	// inside the controller case the choice of the transfer function (signed/unsigned x uni/bidirectional) must stay
	// visible as path conditions even when it is written as value-only branches
	keep := map[*ssa.BasicBlock]bool{}
	if ccType, ok := c.P.constString(pkgConfig, "AnalogCC"); ok {
		for b := range caseRegion(fn, dv, ccType) {
			keep[b] = true
		}
	}
	// the change of coordinates 2v-1 (an unsigned position stretched to -1..1) stays a path condition wherever it is made:
	// hidden in a merged value it would make an unsigned axis look like a signed one to the rules that read the transfer
	// terms (`signed := value; if !canBeNegative { signed = value*2 - 1 }` in front of the type switch)
	for _, host := range dv.hostsOf(fn) {
		for _, b := range host.Blocks {
			for _, in := range b.Instrs {
				sub, ok := in.(*ssa.BinOp)
				if !ok || sub.Op != token.SUB || !isFloatType(sub.Type()) {
					continue
				}
				mul, ok := sub.X.(*ssa.BinOp)
				if !ok || mul.Op != token.MUL {
					continue
				}
				k1, ok1 := sub.Y.(*ssa.Const)
				if !ok1 || k1.Value == nil || k1.Value.String() != "1" {
					continue
				}
				two := false
				for _, op := range []ssa.Value{mul.X, mul.Y} {
					if k, isK := op.(*ssa.Const); isK && k.Value != nil && k.Value.String() == "2" {
						two = true
					}
				}
				if !two {
					continue
				}
				for d := b.Idom(); d != nil; d = d.Idom() {
					if _, isIf := d.Instrs[len(d.Instrs)-1].(*ssa.If); isIf {
						keep[d] = true
						break
					}
				}
			}
		}
	}
	paths, err := Enumerate(fn, SymConfig{Prog: c.P, MaxDepth: 3, Collapse: true, CollapsePure: true, OnlyInline: only, KeepDiamonds: keep, KeepDecided: true, MaxVisits: 4}) // short fixed loops (a two-entry fallback table, a variadic release helper) unroll completely
	c.Paths += len(paths)
	return paths, err
}

// mappingTypeOf: which MappingType constant the path selected ("" none) and which it excluded.
func mappingTypeOf(p *Path) (string, []string) {
	sel := ""
	var negs []string
	for _, a := range p.Atoms {
		op, x, y, ok := normAtom(a)
		if !ok || (op != "==" && op != "!=") {
			continue
		}
		if _, isC := x.IsConst(); isC {
			x, y = y, x
		}
		s, isS := y.IsStringConst()
		if !isS {
			continue
		}
		x = x.StripConv()
		if !((x.Op == "field" || x.Op == "load") && strings.HasSuffix(x.String(), ".MappingType")) {
			continue
		}
		if op == "==" {
			sel = s
		} else {
			negs = append(negs, s)
		}
	}
	return sel, negs
}

// ruleR14analog: an axis that is no longer key-typed (or no longer mapped) must release what it started.
func ruleR14analog(c *Ctx, dv *dev, rule string) {
	fn := dv.fn["handleABSEvent"]
	paths, err := absPaths(c, dv)
	if !c.Require(err == nil, rule, "device.handleABSEvent", fmt.Sprint(err)) {
		return
	}
	keySim, _ := c.P.constString(pkgConfig, "AnalogKeySim")
	on, off := dv.fn["AnalogNoteOn"], dv.fn["AnalogNoteOff"]
	// identifiers the key-emulation branch uses
	ids := map[string]bool{}
	for _, p := range paths {
		for _, e := range p.Effects {
			if e.Kind == "call" && (e.Callee == on || e.Callee == off) && len(e.Args) > 1 {
				if sel, _ := mappingTypeOf(p); sel == keySim {
					ids[e.Args[1].String()] = true
				}
			}
		}
	}
	if !c.Require(len(ids) == 2, rule, "device.handleABSEvent/identifiers", fmt.Sprintf("expected two direction identifiers in the key-emulation case, found %d: %s", len(ids), strings.Join(sortedKeys(ids), " | "))) {
		return
	}
	groups := map[string][2]int{}
	example := map[string]string{}
	for _, p := range paths {
		if p.End != "return" {
			continue
		}
		sel, _ := mappingTypeOf(p)
		if sel == keySim {
			continue
		}
		mapped := "mapped"
		for _, a := range p.Atoms {
			cnd, taken := a.Cond, a.Taken
			for cnd.Op == "unop" {
				cnd, taken = cnd.Args[0], !taken
			}
			if cnd.Op == "lookupok" && strings.Contains(cnd.Args[0].String(), ".Analog[") && !taken {
				mapped = "unmapped"
			}
		}
		released := map[string]bool{}
		for _, e := range p.Effects {
			if e.Kind == "call" && e.Callee == off && len(e.Args) > 1 {
				released[e.Args[1].String()] = true
			}
		}
		// nothing tracked at all
		empty := false
		for _, a := range p.Atoms {
			op, x, y, ok := normAtom(a)
			if !ok {
				continue
			}
			if _, isC := x.IsConst(); isC {
				x, y, op = y, x, flipOp(op)
			}
			if x.Op == "len" && dv.isFieldLoad(x.Args[0], "analogNoteTracker") {
				b := boundsOf([]Atom{a}, x.String())
				if b.hasHi && b.hi <= 0 {
					empty = true
				}
			}
			_ = y
		}
		for id := range ids {
			// a tracker miss for this identifier also counts
			for _, a := range p.Atoms {
				cnd, taken := a.Cond, a.Taken
				for cnd.Op == "unop" {
					cnd, taken = cnd.Args[0], !taken
				}
				if cnd.Op == "lookupok" && dv.isFieldLoad(cnd.Args[0], "analogNoteTracker") && cnd.Args[1].String() == id && !taken {
					released[id] = true
				}
			}
		}
		okPath := empty
		if !okPath {
			okPath = true
			for id := range ids {
				if !released[id] {
					okPath = false
				}
			}
		}
		k := "device.handleABSEvent/axis-not-emulating-keys[" + mapped + ",type=" + sel + "]"
		g := groups[k]
		if okPath {
			g[0]++
		} else {
			g[1]++
			if example[k] == "" {
				example[k] = atomsString(p)
			}
		}
		groups[k] = g
	}
	for _, k := range sortedKeys(groups) {
		g := groups[k]
		if g[1] > 0 {
			c.Bad(rule, k, c.P.Pos(fn.Pos()), fmt.Sprintf("%d of %d path(s) return without releasing both direction identifiers of the axis (and without having seen analogNoteTracker empty): an emulated key held while the mapping is switched to one where the axis is unmapped or not key-typed keeps sounding until disconnect", g[1], g[0]+g[1]))
		} else {
			c.OK(rule, k, c.P.Pos(fn.Pos()), fmt.Sprintf("%d path(s): both direction identifiers released or nothing tracked", g[0]))
		}
	}
}

// caseRegion returns the blocks dominated by the true edge of `analog.MappingType == <value>`.
func caseRegion(fn *ssa.Function, dv *dev, value string) map[*ssa.BasicBlock]bool {
	_, region := caseIf(fn, dv, value)
	return region
}

// caseIf: the branch `MappingType == value` that guards the case body of the type switch, and the blocks of that body.
// When the constant is compared more than once (a filter before the switch) the one dominating the most code is the case.
func caseIf(fn *ssa.Function, dv *dev, value string) (*ssa.If, map[*ssa.BasicBlock]bool) {
	var best *ssa.If
	var bestRegion map[*ssa.BasicBlock]bool
	bestExclusive := false
	var blocks []*ssa.BasicBlock
	for _, h := range dv.hostsOf(fn) { // (the switch may live in a stage function the handler was split into)
		blocks = append(blocks, h.Blocks...)
	}
	for _, b := range blocks {
		if len(b.Instrs) == 0 {
			continue
		}
		ifi, ok := b.Instrs[len(b.Instrs)-1].(*ssa.If)
		if !ok {
			continue
		}
		bo, ok := ifi.Cond.(*ssa.BinOp)
		if !ok || bo.Op.String() != "==" {
			continue
		}
		var k *ssa.Const
		var other ssa.Value
		if cst, ok := bo.Y.(*ssa.Const); ok {
			k, other = cst, bo.X
		} else if cst, ok := bo.X.(*ssa.Const); ok {
			k, other = cst, bo.Y
		}
		if k == nil || k.Value == nil || k.Value.Kind().String() != "String" {
			continue
		}
		if strings.Trim(k.Value.ExactString(), `"`) != value {
			continue
		}
		if !isFieldNamed(other, "MappingType") {
			continue
		}
		head := b.Succs[0]
		region := map[*ssa.BasicBlock]bool{}
		for _, x := range b.Parent().Blocks {
			if head.Dominates(x) {
				region[x] = true
			}
		}
		// a case body is entered only through its own comparison; `a == k || ...` continues in a join block
		exclusive := len(head.Preds) == 1
		if best == nil || (exclusive && !bestExclusive) || (exclusive == bestExclusive && len(region) > len(bestRegion)) {
			best, bestRegion, bestExclusive = ifi, region, exclusive
		}
	}
	return best, bestRegion
}

func isFieldNamed(v ssa.Value, name string) bool {
	switch x := v.(type) {
	case *ssa.Field:
		st := x.X.Type().Underlying().(*types.Struct)
		return st.Field(x.Field).Name() == name
	case *ssa.UnOp:
		if fa, ok := x.X.(*ssa.FieldAddr); ok {
			st := deref(fa.X.Type()).Underlying().(*types.Struct)
			return st.Field(fa.Field).Name() == name
		}
	case *ssa.ChangeType:
		return isFieldNamed(x.X, name)
	}
	return false
}

// ruleR15: disconnect clean-up on every exit path of Device.ProcessEvents.
func ruleR15(c *Ctx, dv *dev, rule string) {
	fn := dv.fn["ProcessEvents"]
	c.Fn(shortFn(fn))
	paths, err := Enumerate(fn, SymConfig{Prog: c.P, MaxDepth: 3, Collapse: true, OnlyInline: dv.withHelpers(map[*ssa.Function]bool{})})
	if !c.Require(err == nil, rule, "device.ProcessEvents", fmt.Sprint(err)) {
		return
	}
	c.Paths += len(paths)
	pos := c.P.Pos(fn.Pos())
	type agg struct {
		n   int
		bad string
	}
	res := map[string]*agg{}
	relKey := dv.releaseKeyTerm("NoteOff", "noteTracker")
	note := func(k, bad string) {
		a := res[k]
		if a == nil {
			a = &agg{}
			res[k] = a
		}
		a.n++
		if bad != "" && a.bad == "" {
			a.bad = bad
		}
	}
	for _, p := range paths {
		if p.End != "return" {
			if p.End == "cut" {
				continue // second iteration of a loop: covered by the single-iteration paths
			}
			note("device.ProcessEvents/ends", "path ends with "+p.End)
			continue
		}
		// index of the last receive from the input channel (loop exit)
		last := -1
		for i, e := range p.Effects {
			if e.Kind == "recv" && e.Args[0].Op == "param" {
				last = i
			}
		}
		if last < 0 {
			note("device.ProcessEvents/input-loop", "no receive from the input channel parameter on a returning path")
			continue
		}
		for _, spec := range []struct{ tracker, off string }{{"noteTracker", "NoteOff"}, {"analogNoteTracker", "AnalogNoteOff"}} {
			k := "device.ProcessEvents/cleanup(" + spec.tracker + ")"
			var rng *Term
			ri := -1
			for i := last + 1; i < len(p.Effects); i++ {
				e := p.Effects[i]
				if e.Kind == "range" && dv.isFieldLoad(e.Args[0], spec.tracker) {
					rng, ri = e.Args[1], i
					break
				}
			}
			if rng == nil {
				note(k, "a path from the end of the input loop to return does not iterate "+spec.tracker)
				continue
			}
			// the releases are not kept waiting for the helper goroutines: those make calls without a deadline (the OpenRGB
			// client), and a join that never returns in front of the clean-up leaves every held note sounding
			for i := last + 1; i < ri; i++ {
				if e := p.Effects[i]; e.Kind == "call" && e.Callee != nil && e.Callee.Name() == "Wait" && pkgPathOf(e.Callee) == "sync" {
					note("device.ProcessEvents/cleanup-before-join", "the disconnect clean-up runs only after wg.Wait(): the helper goroutines (LED feedback: third-party calls without deadline) need not end, the notes still held are then never released")
				}
			}
			// iterations taken on this path: each 'next' with ok==true must be followed by the release call with that key
			bad := ""
			for i := ri + 1; i < len(p.Effects); i++ {
				e := p.Effects[i]
				if e.Kind != "next" || !sameTerm(e.Args[0], rng) {
					continue
				}
				nx := e.Args[1]
				okKey := (&Term{Op: "extract", Args: []*Term{nx}, Aux: "0"}).String()
				taken, found := boolAtom(p.Atoms, okKey)
				if !found || !taken {
					continue
				}
				wantKeyT := &Term{Op: "extract", Args: []*Term{nx}, Aux: "1"}
				wantKey := wantKeyT.String()
				called := false
				for j := i + 1; j < len(p.Effects); j++ {
					e2 := p.Effects[j]
					// (the release may come after the loop: keys listed first and released from the list - the key term
					// names this very step of the iteration, so a later call with it releases this key)
					if e2.Kind == "call" && e2.Callee == dv.fn[spec.off] {
						if spec.off == "NoteOff" {
							// argument: pointer to an event from which NoteOff computes the iterated key again
							jj, arg := j, e2.Args[1]
							got := substEvent(relKey, func(comp string) *Term { return storedComponent(p, jj, arg, comp) })
							if relKey != nil && rebuildsKey(got, wantKeyT) {
								called = true
							}
						} else if e2.Args[1].String() == wantKey {
							called = true
						}
					}
				}
				if !called {
					bad = fmt.Sprintf("an iteration over %s does not call %s with the iterated key", spec.tracker, spec.off)
					if os.Getenv("HIDI_DEBUG") == "R1.5" {
						fmt.Fprintln(os.Stderr, "---- path", spec.tracker)
						for j := last + 1; j < len(p.Effects); j++ {
							if !p.Effects[j].Local {
								fmt.Fprintln(os.Stderr, "   ", p.Effects[j].String())
							}
						}
					}
				}
			}
			note(k, bad)
		}
	}
	for _, k := range sortedKeys(res) {
		a := res[k]
		if a.bad != "" {
			c.Bad(rule, k, pos, a.bad)
		} else {
			c.OK(rule, k, pos, fmt.Sprintf("holds on %d returning path(s): tracker iterated after the input loop, each iteration releases the iterated key", a.n))
		}
	}
	// the release functions delete exactly the iterated key (R1.2), so the loop drains the tracker
	if len(res) == 0 {
		c.Undec(rule, "device.ProcessEvents/paths", pos, "no returning path found")
	}
	// structural twin (independent of unrolling): the range loops exist and are not nested in a branch that can skip them
	for _, spec := range []string{"noteTracker", "analogNoteTracker"} {
		found := false
		hosts := []*ssa.Function{fn}
		for h := range dv.newHelpers() { // a clean-up extracted into a helper that only ProcessEvents calls
			if dv.ownerOf(h) == fn {
				hosts = append(hosts, h)
			}
		}
		for _, host := range hosts {
			for _, b := range host.Blocks {
				for _, in := range b.Instrs {
					if r, ok := in.(*ssa.Range); ok && derivesFromField(r.X, dv.fields[spec], map[ssa.Value]bool{}) {
						found = true
					}
				}
			}
		}
		c.Check(found, rule, "device.ProcessEvents/range("+spec+")", pos, "range over the tracker present", "no range over "+spec+" in ProcessEvents")
	}
}

// codeOfEventArg: the value stored into <arg>.Event.Code before effect index j on path p.
func codeOfEventArg(p *Path, j int, arg *Term) string {
	want := ""
	for i := 0; i < j; i++ {
		e := p.Effects[i]
		if e.Kind != "store" {
			continue
		}
		a := e.Args[0]
		if a.Op == "fieldaddr" && a.Obj.Name() == "Code" && a.Args[0].Op == "fieldaddr" && a.Args[0].Obj.Name() == "Event" && sameTerm(a.Args[0].Args[0], arg) {
			want = e.Args[1].String()
		}
	}
	return want
}

// ruleR16: exhaustive modes.
func ruleR16(c *Ctx, dv *dev, modes []string, rule string) {
	if modes == nil {
		return
	}
	for _, fnName := range []string{"NoteOn", "NoteOff"} {
		m := dv.noteModel(fnName, "noteTracker")
		if m.err != nil {
			continue
		}
		got := m.caseConstants()
		sort.Strings(got)
		c.Check(sameSet(got, modes), rule, "device."+fnName+"/mode-cases", c.P.Pos(m.fn.Pos()),
			fmt.Sprintf("case constants %v = SupportedCollisionModes", got),
			fmt.Sprintf("case constants %v differ from config.SupportedCollisionModes %v: a mode the parser accepts is not handled (or vice versa)", got, modes))
	}
}

// ruleDispatch: every key press/release reaches handleKEYEvent and every axis report reaches handleABSEvent, whatever
// the event's value: decided on the paths of processEvent under representative (type, value) assumptions (the
// function only ever compares Type and Value with constants), plus: ProcessEvents hands every received event to it.
func ruleDispatch(c *Ctx, dv *dev, rule string, wantKey, wantAbs bool) {
	fn := dv.fn["processEvent"]
	if !c.Require(fn != nil && dv.fn["handleKEYEvent"] != nil && dv.fn["handleABSEvent"] != nil, rule, "anchor:device.processEvent", "processEvent / handlers not found") {
		return
	}
	c.Fn(shortFn(fn))
	const evdevPkg = "github.com/holoplot/go-evdev"
	get := func(name string) (int64, bool) {
		v, ok := c.P.constValue(evdevPkg, name)
		if !ok {
			return 0, false
		}
		k, ok := constant.Int64Val(v)
		return k, ok
	}
	evKey, ok1 := get("EV_KEY")
	evAbs, ok2 := get("EV_ABS")
	if !c.Require(ok1 && ok2, rule, "anchor:evdev.EV_KEY/EV_ABS", "evdev constants not resolved") {
		return
	}
	paths, err := Enumerate(fn, SymConfig{Prog: c.P, MaxDepth: 3, Collapse: true, OnlyInline: dv.withHelpers(map[*ssa.Function]bool{})})
	if !c.Require(err == nil, rule, "device.processEvent/paths", fmt.Sprint(err)) {
		return
	}
	c.Paths += len(paths)
	pos := c.P.Pos(fn.Pos())
	isField := func(t *Term, name string) bool {
		t = t.StripConv()
		return (t.Op == "load" || t.Op == "field") && strings.HasSuffix(t.String(), ".Event."+name)
	}
	cmp := func(v int64, op string, k int64) bool {
		switch op {
		case "==":
			return v == k
		case "!=":
			return v != k
		case "<":
			return v < k
		case "<=":
			return v <= k
		case ">":
			return v > k
		case ">=":
			return v >= k
		}
		return true
	}
	consistent := func(p *Path, typ, val int64) bool {
		for _, a := range p.Atoms {
			op, l, r, ok := normAtom(a)
			if !ok {
				continue
			}
			if _, isC := l.IsConst(); isC {
				l, r, op = r, l, flipOp(op)
			}
			k, isK := r.IsIntConst()
			if !isK {
				continue
			}
			if isField(l, "Type") && !cmp(typ, op, k) || isField(l, "Value") && !cmp(val, op, k) {
				return false
			}
		}
		return true
	}
	type tc struct {
		key, what string
		typ       int64
		vals      []int64
		want      *ssa.Function
		on        bool
	}
	cases := []tc{
		{"device.processEvent/axis-report->handleABSEvent", "an axis report (any position, including 0, 1, 2, -1)", evAbs, []int64{0, 1, 2, 3, -1, -2, 127, 255, -32768, 32767}, dv.fn["handleABSEvent"], wantAbs},
		{"device.processEvent/key-press-release->handleKEYEvent", "a key press or release", evKey, []int64{0, 1}, dv.fn["handleKEYEvent"], wantKey},
	}
	// representatives of Value: every constant it is compared with anywhere, and its neighbours (the function touches
	// Value only through comparisons with constants, so these cover every ordering)
	reps := map[int64]bool{}
	for _, p := range paths {
		for _, a := range p.Atoms {
			if _, l, r, ok := normAtom(a); ok {
				if _, isC := l.IsConst(); isC {
					l, r = r, l
				}
				if k, isK := r.IsIntConst(); isK && isField(l, "Value") {
					reps[k-1], reps[k], reps[k+1] = true, true, true
				}
			}
		}
	}
	for _, cs := range cases {
		if !cs.on {
			continue
		}
		n, bad := 0, ""
		vals := cs.vals
		if cs.typ == evAbs {
			for k := range reps {
				vals = append(vals, k)
			}
			sort.Slice(vals, func(i, j int) bool { return vals[i] < vals[j] })
		}
		for _, v := range vals {
			for _, p := range paths {
				if p.End == "cut" || !consistent(p, cs.typ, v) {
					continue
				}
				n++
				calls, locked := 0, true
				for ei, e := range p.Effects {
					if e.Kind == "call" && e.Callee == cs.want {
						calls++
						if len(e.Args) < 2 || e.Args[1].Op != "param" {
							bad = "the handler is not given the event that was received"
						}
						// held at the call: structurally in the calling function, or - when the handler is reached through a
						// function value (a dispatch table) - by the Lock/Unlock calls that precede it on this path
						if !heldAt(e.Instr, dv.fields["eventProcessMutex"]) && !lockedOnPath(p, ei, dv.fields["eventProcessMutex"]) {
							locked = false
						}
					}
				}
				if calls != 1 {
					bad = fmt.Sprintf("%s with value %d reaches %s %d time(s): the event is dropped before the handler (a release / threshold crossing is lost and a note keeps sounding)", cs.what, v, cs.want.Name(), calls)
				} else if !locked {
					bad = "the handler runs without the event mutex"
				}
			}
		}
		if n == 0 {
			c.Undec(rule, cs.key, pos, "no path consistent with "+cs.what)
			continue
		}
		c.Check(bad == "", rule, cs.key, pos, fmt.Sprintf("%d consistent path evaluation(s), each calls %s(event) once under the event mutex", n, cs.want.Name()), bad)
	}
	// an auto-repeat report of a held key (value 2) is neither a press nor a release: the key handler treats every
	// non-press as a release (deletes the held-key entry, releases the note), so repeats must be filtered out before it
	if wantKey {
		if rep, ok := c.P.constValue(pkgDevice, "EV_KEY_REPEAT"); ok {
			rv, _ := constant.Int64Val(rep)
			n, bad := 0, ""
			for _, p := range paths {
				if p.End == "cut" || !consistent(p, evKey, rv) {
					continue
				}
				n++
				for _, e := range p.Effects {
					if e.Kind == "call" && e.Callee == dv.fn["handleKEYEvent"] {
						bad = "a key auto-repeat report (value 2) reaches handleKEYEvent, which treats every non-press as a release: holding a key long enough removes it from the held-key set and releases its note"
					}
				}
			}
			if n == 0 {
				c.Undec(rule, "device.processEvent/key-repeat-filtered", pos, "no path consistent with a key repeat report")
			} else {
				c.Check(bad == "", rule, "device.processEvent/key-repeat-filtered", pos, fmt.Sprintf("%d consistent path(s), none reaches the key handler", n), bad)
			}
		} else {
			c.Undec(rule, "anchor:device.EV_KEY_REPEAT", "-", "constant not found")
		}
	}
	// an event of another type (EV_SYN, EV_REL, EV_MSC, EV_LED, EV_REP, EV_FF ...) is no key and no axis report: it reaches
	// neither handler. The key handler takes whatever it is given for a press or a release of the key whose code equals the
	// event's code (LED_CAPSL = REL_Y = 1 = KEY_ESC; the MSC_SCAN report that precedes every key stroke has code 4 = KEY_3).
	{
		n, bad := 0, ""
		var others []int64
		for t := int64(0); t <= 0x1f; t++ {
			if t != evKey && t != evAbs {
				others = append(others, t)
			}
		}
		for _, t := range others {
			for _, v := range []int64{0, 1, 2, -1} {
				for _, p := range paths {
					if p.End == "cut" || !consistent(p, t, v) {
						continue
					}
					n++
					for _, e := range p.Effects {
						if e.Kind == "call" && (wantKey && e.Callee == dv.fn["handleKEYEvent"] || wantAbs && e.Callee == dv.fn["handleABSEvent"]) && bad == "" {
							bad = fmt.Sprintf("an event of type %d (neither EV_KEY nor EV_ABS) with value %d reaches %s: a LED, scan-code, relative-motion or repeat report is taken for a key or an axis with the same code number", t, v, e.Callee.Name())
						}
					}
				}
			}
		}
		if n == 0 {
			c.Undec(rule, "device.processEvent/other-event-types-reach-no-handler", pos, "no path consistent with an event of another type")
		} else {
			c.Check(bad == "", rule, "device.processEvent/other-event-types-reach-no-handler", pos, fmt.Sprintf("%d consistent path evaluation(s) over the %d other event types, none calls a handler", n, len(others)), bad)
		}
	}
	// ProcessEvents: every received event is handed to processEvent
	pe := dv.fn["ProcessEvents"]
	if pe != nil {
		okCall := false
		for _, b := range pe.Blocks {
			for _, in := range b.Instrs {
				call, ok := in.(*ssa.Call)
				if !ok || call.Call.StaticCallee() != fn || len(call.Call.Args) < 2 {
					continue
				}
				// argument: the value received from the input channel in this iteration; the call dominates the latch
				arg := call.Call.Args[1]
				fromRecv := false
				switch x := arg.(type) {
				case *ssa.Extract:
					if nx, isNext := x.Tuple.(*ssa.Next); isNext {
						_ = nx
						fromRecv = true
					}
					if u, isU := x.Tuple.(*ssa.UnOp); isU && u.Op == token.ARROW {
						fromRecv = true
					}
				case *ssa.UnOp:
					fromRecv = x.Op == token.ARROW
				}
				dominatesLatch := false
				for _, h := range pe.Blocks {
					for _, p := range h.Preds {
						if h.Dominates(p) && h.Dominates(b) && blockDominatesOrSame(b, p) {
							dominatesLatch = true
						}
					}
				}
				if fromRecv && dominatesLatch {
					okCall = true
				}
			}
		}
		c.Check(okCall, rule, "device.ProcessEvents/every-event->processEvent", c.P.Pos(pe.Pos()), "each iteration of the input loop calls processEvent with the received event", "the input loop does not hand every received event to processEvent")
	}
}

// lockedOnPath: on path p, before effect idx, the last Lock/Unlock call on the mutex held in field f is a Lock.
func lockedOnPath(p *Path, idx int, f *types.Var) bool {
	held := false
	for i := 0; i < idx && i < len(p.Effects); i++ {
		e := p.Effects[i]
		if e.Kind != "call" || e.Callee == nil || len(e.Args) == 0 || !e.Args[0].LoadsField(f) && !e.Args[0].Any(func(t *Term) bool { return t.Op == "fieldaddr" && t.Obj == types.Object(f) }) {
			continue
		}
		if e.Callee.Pkg == nil || e.Callee.Pkg.Pkg.Path() != "sync" {
			continue
		}
		switch e.Callee.Name() {
		case "Lock":
			held = true
		case "Unlock":
			held = false
		}
	}
	return held
}
