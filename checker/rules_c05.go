package main

import (
	"fmt"
	"go/constant"
	"go/token"
	"go/types"
	"sort"
	"strings"

	"golang.org/x/tools/go/ssa"
)

func init() {
	registry["C05"] = checkC05
}

func checkC05(c *Ctx) {
	dv := newDev(c, "R5.0")
	if !dv.ok || !dv.need("R5.0", []string{"NoteOn", "NoteOff", "AnalogNoteOn", "AnalogNoteOff", "handleABSEvent", "Panic", "NewDevice", "ChannelUp", "ChannelDown", "ChannelReset"},
		[]string{"channel", "velocity", "noteTracker", "analogNoteTracker", "outputEvents"}) {
		return
	}
	pf := newParserFacts(c)
	if !c.Require(pf.err == nil, "R5.0", "config.ParseData", fmt.Sprint(pf.err)) {
		return
	}
	ctorInfo := ruleCtorShape(c, dv)
	// invariants the send-site proofs may rely on; each is established below
	pf.fieldInv[dv.fields["channel"]] = rng{0, 15}
	pf.fieldInv[dv.fields["velocity"]] = rng{1, 127}
	pf.elemInv[dv.fields["noteTracker"]] = []rng{{0, 127}, {0, 15}}
	pf.elemInv[dv.fields["analogNoteTracker"]] = []rng{{0, 127}, {0, 15}}
	pf.structInv["Analog.CC"] = rng{0, 119}
	pf.structInv["Analog.CCNeg"] = rng{0, 119}

	ruleSendSites(c, dv, pf, ctorInfo)
	ruleEstablishInvariants(c, dv, pf)
	ruleConfigOnlyFromParser(c, pf, "R5.5")
	// necessary condition for the (otherwise undecided) Control Change value byte: positions within the reported range normalise into [-1,1]
	ruleNormalisation(c, dv, "R5.6")
	ruleConfigFieldsOnlyFromParser(c, pf, "R5.8")
	// and the deadzone rescale divides (v -/+ dz) by (1 - dz) of the SAME dz: the shaped value stays within [-1,1]
	c.importRules(rescaleRules, []string{"R6.10", "R6.11", "R6.13"}, "R5.7") // and the centre shift 2v-1 is applied to unsigned positions only
	c.importRules(transportRules, []string{"R15.2"}, "R5.9")                 // a complete three-byte message stays one on its way to the port: relays hand on what they took, message by message (nothing glued together, cut or altered)
	c.MinCount("R5.1", 3)
	c.MinCount("R5.2", 12)
	c.MinCount("R5.3", 12)
	c.MinCount("R5.4", 20)
	c.DecidedClause("every value a device sends is the direct result of one of the three constructors, each of which builds a 3-byte message `kind|channel, b1, b2` with kind in {0x80,0x90,0xB0,0xE0}")
	c.DecidedClause("at all constructor call sites the channel nibble is <= 15 (mod 16, tracker container invariant, or Device.channel field invariant incl. its initialisation from the parser-checked default channel), notes are within 0..127 (range guard, tracker invariant, counted loop), velocities, controller numbers and pitch-bend bytes are within 0..127")
	c.UndecidedClause("the VALUE byte of the analog Control Change messages, byte(int(127*adjustedValue)): its bound needs relational floating-point facts (adjustedValue in [0,1]) that interval reasoning without a solver cannot establish; deadzones are not range-checked by the parser")
	c.Assumption("axis positions are within the axis' reported range (property quantifier)")
}

type ctorShape struct {
	fn        *ssa.Function
	kindParam int // index of the parameter OR-ed into the status (-1: constant kind)
	kindConst int64
	chanParam int
	dataParam [2]int // parameter index feeding data byte i directly, -1 if computed and proven masked
	ok        bool
}

// ruleCtorShape: R5.1 each constructor returns Event{T | channel, b1, b2}.
func ruleCtorShape(c *Ctx, dv *dev) map[*ssa.Function]*ctorShape {
	out := map[*ssa.Function]*ctorShape{}
	var fns []*ssa.Function
	for f := range dv.ctors {
		fns = append(fns, f)
	}
	sort.Slice(fns, func(i, j int) bool { return fns[i].Name() < fns[j].Name() })
	for _, fn := range fns {
		c.Fn(shortFn(fn))
		key := "midi." + fn.Name() + "/shape"
		pos := c.P.Pos(fn.Pos())
		paths, err := Enumerate(fn, SymConfig{Prog: c.P, MaxDepth: 2, Collapse: true}) // (a constructor may be written in terms of another one)
		if err != nil || len(paths) != 1 || len(paths[0].Ret) != 1 {
			c.Undec("R5.1", key, pos, fmt.Sprintf("constructor is not a single straight-line path (paths=%d err=%v)", len(paths), err))
			continue
		}
		c.Paths++
		ev := decodeEvent(builtLiteral(paths[0], paths[0].Ret[0]))
		sh := &ctorShape{fn: fn, kindParam: -1, chanParam: -1, dataParam: [2]int{-1, -1}}
		if ev.Len != 3 || !ev.ok && ev.Status == nil {
			c.Bad("R5.1", key, pos, "constructor does not return a 3-byte literal: "+paths[0].Ret[0].String())
			continue
		}
		paramIdx := func(t *Term) int {
			t = t.StripConv()
			if t.Op != "param" {
				return -1
			}
			for i, p := range fn.Params {
				if p.Name() == t.Aux {
					return i
				}
			}
			return -1
		}
		st := ev.Status
		bad := ""
		if st.Op == "binop" && st.Aux == "|" {
			a, b := st.Args[0], st.Args[1]
			if k, ok := a.IsIntConst(); ok {
				sh.kindConst, sh.chanParam = k, paramIdx(b)
			} else if k, ok := b.IsIntConst(); ok {
				sh.kindConst, sh.chanParam = k, paramIdx(a)
			} else {
				// both parameters: messageType | channel
				sh.kindParam, sh.chanParam = paramIdx(a), paramIdx(b)
				if sh.kindParam < 0 || sh.chanParam < 0 {
					bad = "status byte is not `kind | channel` over parameters/constants: " + st.String()
				} else if fn.Params[sh.kindParam].Name() == "channel" || strings.Contains(strings.ToLower(fn.Params[sh.chanParam].Name()), "type") {
					sh.kindParam, sh.chanParam = sh.chanParam, sh.kindParam
				}
			}
		} else {
			bad = "status byte is not `kind | channel`: " + st.String()
		}
		if bad == "" && sh.chanParam < 0 {
			bad = "status byte does not include the channel parameter"
		}
		if bad == "" && sh.kindParam < 0 {
			if sh.kindConst&0x0f != 0 || (sh.kindConst != midiNoteOn && sh.kindConst != midiNoteOff && sh.kindConst != midiCC && sh.kindConst != midiPitch) {
				bad = fmt.Sprintf("kind constant 0x%X is not a channel-voice status with a clear low nibble", sh.kindConst)
			}
		}
		for i, d := range []*Term{ev.B1, ev.B2} {
			if pi := paramIdx(d); pi >= 0 {
				sh.dataParam[i] = pi
				continue
			}
			if !termMasked7(d) {
				bad = fmt.Sprintf("data byte %d (%s) is neither a parameter nor masked with 0x7f", i+1, d)
			}
		}
		if bad != "" {
			c.Bad("R5.1", key, pos, bad)
			continue
		}
		sh.ok = true
		out[fn] = sh
		c.OK("R5.1", key, pos, fmt.Sprintf("returns [%s, %s, %s]", ev.Status, ev.B1, ev.B2))
	}
	return out
}

// termMasked7: uint8(x & 0x7f) (possibly nested conversions)
func termMasked7(t *Term) bool {
	t = t.StripConv()
	if t.Op == "binop" && t.Aux == "&" {
		if k, ok := t.Args[1].IsIntConst(); ok && k >= 0 && k <= 127 {
			return true
		}
		if k, ok := t.Args[0].IsIntConst(); ok && k >= 0 && k <= 127 {
			return true
		}
	}
	return false
}

type sendSite struct {
	fn    *ssa.Function
	instr ssa.Instruction
	val   ssa.Value
	ch    ssa.Value
}

func midiSendSites(p *Program) []sendSite {
	var out []sendSite
	for _, fn := range p.Funcs {
		for _, b := range fn.Blocks {
			for _, in := range b.Instrs {
				switch x := in.(type) {
				case *ssa.Send:
					if isMidiEventChan(x.Chan.Type()) {
						out = append(out, sendSite{fn, in, x.X, x.Chan})
					}
				case *ssa.Select:
					for _, s := range x.States {
						if s.Dir == types.SendOnly && isMidiEventChan(s.Chan.Type()) {
							out = append(out, sendSite{fn, in, s.Send, s.Chan})
						}
					}
				}
			}
		}
	}
	return out
}

// ctorCalls resolves the value sent to the constructor calls it can be (through phis).
func ctorCalls(v ssa.Value, dv *dev, seen map[ssa.Value]bool) ([]*ssa.Call, bool) {
	if seen[v] {
		return nil, true
	}
	seen[v] = true
	switch x := v.(type) {
	case *ssa.Call:
		f := x.Call.StaticCallee()
		if f != nil && dv.ctors[f] {
			return []*ssa.Call{x}, true
		}
		// a helper of the device package that returns what a constructor returned (held.offEvent())
		if f != nil && f.Blocks != nil && dv.p.OwnedFunc(f) && f.Signature.Results().Len() == 1 {
			var out []*ssa.Call
			for _, b := range f.Blocks {
				for _, in := range b.Instrs {
					ret, ok := in.(*ssa.Return)
					if !ok {
						continue
					}
					cs, ok := ctorCalls(ret.Results[0], dv, seen)
					if !ok || len(cs) == 0 {
						return nil, false
					}
					out = append(out, cs...)
				}
			}
			return out, len(out) > 0
		}
		return nil, false
	case *ssa.Phi:
		var out []*ssa.Call
		for _, e := range x.Edges {
			cs, ok := ctorCalls(e, dv, seen)
			if !ok {
				return nil, false
			}
			out = append(out, cs...)
		}
		return out, true
	case *ssa.ChangeType:
		return ctorCalls(x.X, dv, seen)
	case *ssa.Index:
		return sliceElemCtorCalls(x.X, dv, seen)
	case *ssa.UnOp:
		// an element of a list of messages that a helper of the package built from constructor results
		if ia, ok := x.X.(*ssa.IndexAddr); ok && x.Op == token.MUL {
			return sliceElemCtorCalls(ia.X, dv, seen)
		}
		// a local variable holding the value (the loop variable of a range over the list)
		if a, ok := x.X.(*ssa.Alloc); ok && x.Op == token.MUL {
			var out []*ssa.Call
			n := 0
			for _, r := range *a.Referrers() {
				if st, ok := r.(*ssa.Store); ok && st.Addr == ssa.Value(a) {
					cs, ok := ctorCalls(st.Val, dv, seen)
					if !ok {
						return nil, false
					}
					out = append(out, cs...)
					n++
				}
			}
			return out, n > 0 && len(out) > 0
		}
		return nil, false
	case *ssa.Parameter:
		// a helper that sends its argument: resolve through every static call site
		fn := x.Parent()
		idx := -1
		for i, p := range fn.Params {
			if p == x {
				idx = i
			}
		}
		var out []*ssa.Call
		n := 0
		for _, caller := range dv.p.Funcs {
			for _, b := range caller.Blocks {
				for _, in := range b.Instrs {
					ci, ok := in.(ssa.CallInstruction)
					if !ok || ci.Common().StaticCallee() != fn || idx >= len(ci.Common().Args) {
						continue
					}
					n++
					cs, ok := ctorCalls(ci.Common().Args[idx], dv, seen)
					if !ok {
						return nil, false
					}
					out = append(out, cs...)
				}
			}
		}
		if n == 0 || fn.Referrers() != nil && len(*fn.Referrers()) > n {
			return nil, false // address-taken helper: callers unknown
		}
		return out, true
	}
	return nil, false
}

func fromReceive(p *Program, v ssa.Value, seen map[ssa.Value]bool) bool {
	if seen[v] {
		return true
	}
	seen[v] = true
	switch x := v.(type) {
	case *ssa.UnOp:
		if x.Op == token.MUL {
			// a load of a captured variable
			switch y := x.X.(type) {
			case *ssa.FreeVar:
				return fromReceive(p, y, seen)
			case *ssa.Alloc:
				return fromReceive(p, y, seen)
			}
			return false
		}
		return x.Op == token.ARROW
	case *ssa.Extract:
		switch t := x.Tuple.(type) {
		case *ssa.UnOp:
			return t.Op == token.ARROW
		case *ssa.Select:
			return x.Index >= 2
		case *ssa.Next:
			return true
		}
	case *ssa.Phi:
		for _, e := range x.Edges {
			if c, ok := e.(*ssa.Const); ok && c.Value == nil {
				continue // zero value before the first receive
			}
			if !fromReceive(p, e, seen) {
				return false
			}
		}
		return true
	case *ssa.ChangeType:
		return fromReceive(p, x.X, seen)
	case *ssa.Convert:
		return fromReceive(p, x.X, seen)
	case *ssa.FreeVar:
		// a closure that forwards a captured value: what every place that creates the closure binds
		fn := x.Parent()
		idx := -1
		for i, fv := range fn.FreeVars {
			if fv == x {
				idx = i
			}
		}
		n := 0
		for _, host := range p.Funcs {
			for _, b := range host.Blocks {
				for _, in := range b.Instrs {
					mc, ok := in.(*ssa.MakeClosure)
					if !ok || mc.Fn != ssa.Value(fn) || idx < 0 || idx >= len(mc.Bindings) {
						continue
					}
					n++
					if !fromReceive(p, mc.Bindings[idx], seen) {
						return false
					}
				}
			}
		}
		return n > 0
	case *ssa.Alloc:
		// the cell of a captured variable: what is stored into it
		n := 0
		for _, r := range *x.Referrers() {
			if st, ok := r.(*ssa.Store); ok && st.Addr == ssa.Value(x) {
				n++
				if !fromReceive(p, st.Val, seen) {
					return false
				}
			}
		}
		return n > 0
	case *ssa.Parameter:
		// a helper that forwards its argument: every static call site must pass a received value
		sites, ok := staticCallSites(p, x.Parent())
		idx := paramIndex(x)
		if !ok || idx < 0 {
			return false
		}
		for _, ci := range sites {
			if idx >= len(ci.Common().Args) || !fromReceive(p, ci.Common().Args[idx], seen) {
				return false
			}
		}
		return true
	}
	return false
}

func paramIndex(x *ssa.Parameter) int {
	for i, q := range x.Parent().Params {
		if q == x {
			return i
		}
	}
	return -1
}

// staticCallSites: every call/go/defer site in the repository's functions whose static callee is fn (or the
// generic origin's instantiation fn); ok=false when fn is also used as a value (callers unknown) or never called.
func staticCallSites(p *Program, fn *ssa.Function) ([]ssa.CallInstruction, bool) {
	var out []ssa.CallInstruction
	if fn.Parent() != nil {
		return closureCallSites(fn)
	}
	for _, caller := range p.Funcs {
		for _, b := range caller.Blocks {
			for _, in := range b.Instrs {
				if ci, ok := in.(ssa.CallInstruction); ok && ci.Common().StaticCallee() == fn {
					out = append(out, ci)
				}
			}
		}
	}
	if len(out) == 0 || fn.Referrers() != nil && len(*fn.Referrers()) > len(out) {
		return nil, false
	}
	return out, true
}

// fromOwnQueue: the value sent was received from a channel that the device package makes itself and that only functions of
// the device package send to (a queue between the device's emitters and the shared output): what goes in is checked at
// those send sites, and the relay rules (R15.2, imported as R5.9) make sure it comes out unaltered.
func fromOwnQueue(c *Ctx, v ssa.Value) (string, bool) {
	var recv ssa.Instruction
	switch x := v.(type) {
	case *ssa.UnOp:
		if x.Op == token.ARROW {
			recv = x
		}
	case *ssa.Extract:
		switch t := x.Tuple.(type) {
		case *ssa.UnOp:
			if t.Op == token.ARROW && x.Index == 0 {
				recv = t
			}
		case *ssa.Select:
			if x.Index >= 2 {
				recv = t
			}
		}
	}
	if recv == nil {
		return "", false
	}
	inDevice := func(fn *ssa.Function) bool {
		top := topFunc(fn)
		return top.Pkg != nil && top.Pkg.Pkg.Path() == pkgDevice
	}
	for _, cl := range buildChanFlow(c.P).Classes() {
		has := false
		for _, r := range cl.Recvs {
			if r.Instr == recv {
				if sel, isSel := recv.(*ssa.Select); isSel {
					// the select state the value was taken from
					ex := v.(*ssa.Extract)
					n := 0
					for k, st := range sel.States {
						if st.Dir == types.RecvOnly {
							if n == ex.Index-2 && k == r.Aux {
								has = true
							}
							n++
						}
					}
				} else {
					has = true
				}
			}
		}
		if !has {
			continue
		}
		if len(cl.Makes) == 0 || len(cl.Sends) == 0 {
			return "", false
		}
		for _, m := range cl.Makes {
			if !inDevice(m.Fn) {
				return "", false
			}
		}
		for _, sd := range cl.Sends {
			if !inDevice(sd.Fn) {
				return "", false
			}
		}
		return fmt.Sprintf("forwards what it took from the device's own queue (made at %s, %d send site(s), all in package device and checked there)", c.P.Pos(cl.Makes[0].Instr.Pos()), len(cl.Sends)), true
	}
	return "", false
}

// ruleSendSites: R5.2 (only constructor results are sent) and R5.3/R5.4 (operands in range).
func ruleSendSites(c *Ctx, dv *dev, pf *parserFacts, shapes map[*ssa.Function]*ctorShape) {
	sites := midiSendSites(c.P)
	ord := map[string]int{}
	done := map[*ssa.Call]bool{}
	for _, s := range sites {
		top := topFunc(s.fn)
		inDevice := top.Pkg != nil && top.Pkg.Pkg.Path() == pkgDevice
		fname := shortFn(s.fn)
		ord[fname]++
		key := fmt.Sprintf("%s/send#%d", fname, ord[fname])
		pos := c.P.Pos(s.instr.Pos())
		c.Fn(fname)
		if !inDevice {
			// relay side: forwards what it received
			if fromReceive(c.P, s.val, map[ssa.Value]bool{}) {
				c.OK("R5.2", key, pos, "relay forwards a received value")
			} else {
				c.Bad("R5.2", key, pos, "a value that was not received from a channel is sent on a MIDI event channel outside package device")
			}
			continue
		}
		if why, ok := fromOwnQueue(c, s.val); ok {
			c.OK("R5.2", key, pos, why)
			continue
		}
		calls, ok := ctorCalls(s.val, dv, map[ssa.Value]bool{})
		if !ok || len(calls) == 0 {
			c.Bad("R5.2", key, pos, "the value sent is not the direct result of midi.NoteEvent / ControlChangeEvent / PitchBendEvent (hand-built or forwarded event)")
			continue
		}
		c.OK("R5.2", key, pos, fmt.Sprintf("sends the result of %s", calls[0].Call.StaticCallee().Name()))
		for _, call := range calls {
			if done[call] {
				continue
			}
			done[call] = true
			sh := shapes[call.Call.StaticCallee()]
			if sh == nil {
				continue // shape violation already reported
			}
			args := call.Call.Args
			ckey := key + "/" + sh.fn.Name()
			cpos := c.P.Pos(call.Pos())
			// kind
			kind := sh.kindConst
			onlyNoteOn := sh.kindParam < 0
			if sh.kindParam >= 0 {
				// a constant, or the parameter of a sending helper that every call site binds to a constant
				kinds, okK := constKinds(c.P, args[sh.kindParam], 0)
				if !okK || len(kinds) == 0 {
					c.Bad("R5.3", ckey+"/kind", cpos, "message kind is not a constant")
					continue
				}
				badKind := false
				onlyNoteOn = true
				for _, kk := range kinds {
					if kk != midiNoteOn {
						onlyNoteOn = false
					}
					kind = kk
					if kk != midiNoteOn && kk != midiNoteOff {
						c.Bad("R5.3", ckey+"/kind", cpos, fmt.Sprintf("message kind 0x%X is not NoteOn/NoteOff (low nibble must be 0)", kk))
						badKind = true
					}
				}
				if badKind {
					continue
				}
			}
			// channel nibble
			okc, why := pf.proveRange(args[sh.chanParam], call.Block(), 0, 15, 0)
			if okc {
				c.OK("R5.3", ckey+"/channel", cpos, why)
			} else {
				c.Bad("R5.3", ckey+"/channel", cpos, "channel nibble not proven <= 15: "+why+" — an out-of-range value is OR-ed into the status byte unmasked")
			}
			// data bytes
			names := [2]string{"data1", "data2"}
			switch kind {
			case midiNoteOn, midiNoteOff:
				names = [2]string{"note", "velocity"}
			case midiCC:
				names = [2]string{"controller", "value"}
			}
			for i := 0; i < 2; i++ {
				pi := sh.dataParam[i]
				if pi < 0 {
					c.OK("R5.4", ckey+"/"+names[i], cpos, "masked with 0x7f inside the constructor")
					continue
				}
				hi := int64(127)
				if kind == midiCC && i == 0 {
					// channel-mode messages 120..127 are allowed only as the explicit AllNotesOff constant
					if k, isConst := args[pi].(*ssa.Const); isConst && k.Value != nil && k.Int64() >= 120 {
						allNotesOff, _ := c.P.constValue(pkgMidi, "AllNotesOff")
						if allNotesOff != nil && constant.Compare(allNotesOff, token.EQL, constant.MakeInt64(k.Int64())) && k.Int64() <= 127 {
							c.OK("R5.4", ckey+"/"+names[i], cpos, "constant AllNotesOff (123)")
						} else {
							c.Bad("R5.4", ckey+"/"+names[i], cpos, fmt.Sprintf("controller constant %d is a channel-mode message other than AllNotesOff", k.Int64()))
						}
						continue
					}
					hi = 119
				}
				if kind == midiCC && i == 1 && isFloatDerived(c.P, args[pi]) {
					c.Trivial("R5.4", ckey+"/"+names[i]+"(not-decided)", cpos, "value byte byte(int(127*x)) is derived from floating-point shaping: NOT decided by this check (see explanation)")
					continue
				}
				lo := int64(0)
				if kind == midiNoteOn && i == 1 && onlyNoteOn {
					lo = 1 // a Note On with velocity 0 is a Note Off on the wire: the key would be tracked as sounding and stay silent
				}
				okd, why := pf.proveRange(args[pi], call.Block(), lo, hi, 0)
				if okd {
					c.OK("R5.4", ckey+"/"+names[i], cpos, why)
				} else {
					c.Bad("R5.4", ckey+"/"+names[i], cpos, fmt.Sprintf("%s byte not proven within %d..%d: %s", names[i], lo, hi, why))
				}
			}
		}
	}
	// literals of midi.Event built outside the constructors in non-test code
	for _, fn := range c.P.Funcs {
		top := topFunc(fn)
		if dv.ctors[top] || top.Pkg == nil {
			continue
		}
		for _, b := range fn.Blocks {
			for _, in := range b.Instrs {
				if sl, ok := in.(*ssa.Slice); ok {
					if n, ok := sl.Type().(*types.Named); ok && n.Obj().Name() == "Event" && n.Obj().Pkg() != nil && n.Obj().Pkg().Path() == pkgMidi {
						if _, isAlloc := sl.X.(*ssa.Alloc); isAlloc && top.Pkg.Pkg.Path() == pkgDevice {
							c.Bad("R5.2", shortFn(fn)+"/event-literal", c.P.Pos(sl.Pos()), "midi.Event literal built outside the constructors in package device")
						}
					}
				}
			}
		}
	}
}

func isFloatDerived(p *Program, v ssa.Value) bool {
	seen := map[ssa.Value]bool{}
	var rec func(v ssa.Value) bool
	rec = func(v ssa.Value) bool {
		if seen[v] {
			return false
		}
		seen[v] = true
		if b, ok := v.Type().Underlying().(*types.Basic); ok && b.Info()&types.IsFloat != 0 {
			return true
		}
		switch x := v.(type) {
		case *ssa.Convert:
			return rec(x.X)
		case *ssa.BinOp:
			return rec(x.X) || rec(x.Y)
		case *ssa.Phi:
			for _, e := range x.Edges {
				if rec(e) {
					return true
				}
			}
		case *ssa.Parameter:
			// a helper's parameter: float-derived if every static call site passes a float-derived value
			sites, ok := staticCallSites(p, x.Parent())
			idx := paramIndex(x)
			if !ok || idx < 0 {
				return false
			}
			for _, ci := range sites {
				if idx >= len(ci.Common().Args) || !rec(ci.Common().Args[idx]) {
					return false
				}
			}
			return true
		case *ssa.Call:
			// a value-only helper (e.g. an extracted scaling function): float-derived if every result is
			callee := x.Call.StaticCallee()
			if callee == nil || len(callee.Blocks) == 0 || callee.Signature.Results().Len() != 1 {
				return false
			}
			n := 0
			for _, b := range callee.Blocks {
				if r, ok := b.Instrs[len(b.Instrs)-1].(*ssa.Return); ok && b != callee.Recover {
					n++
					if !rec(r.Results[0]) {
						return false
					}
				}
			}
			return n > 0
		}
		return false
	}
	return rec(v)
}

// ruleChannelInvariant: Device.channel stays within 0..15 - every store site preserves it and the parser establishes the
// initial value (used by C05 for the status nibble and by C13 for the panic burst, which puts d.channel on the wire unmasked).
func ruleChannelInvariant(c *Ctx, dv *dev, pf *parserFacts, rule string) {
	// (a) Device.channel in [0,15]: every store site preserves it
	for _, s := range storesToField(c.P, dv.fields["channel"]) {
		st := s.Instr.(*ssa.Store)
		key := "inv(Device.channel in [0,15])/store@" + shortFn(s.Fn)
		pos := c.P.Pos(st.Pos())
		if s.Fn == dv.fn["NewDevice"] {
			// uint8(Defaults.Channel - 1) needs Defaults.Channel in [1,16]
			src, minus, ok := defaultsSource(st.Val)
			if !ok || src != "Channel" || minus != 1 {
				c.Bad(rule, key, pos, "initial channel is not uint8(Defaults.Channel - 1)")
				continue
			}
			res := pf.checkBounds("Defaults", "Channel")
			if len(res) == 0 {
				c.Undec(rule, key, pos, "no Defaults literal found in ParseData")
				continue
			}
			for _, r := range res {
				if r.OK {
					c.OK(rule, key, pos, "Defaults.Channel in [1,16] established by the parser: "+r.Why)
				} else {
					c.Bad(rule, key, r.Pos, "the initial channel uint8(Defaults.Channel-1) is in 0..15 only if the parser guarantees defaults.channel in 1..16, but: "+r.Why+" — e.g. `channel = 0` is accepted, Device.channel becomes 255 and Panic() emits status byte 0xB0|0xFF")
				}
			}
			continue
		}
		// channel ± 1 under a guard, or constant
		vw := pf.view(s.Fn)
		atoms := vw.GuardsAt(st.Block())
		cur := (&Term{Op: "load", Args: []*Term{{Op: "fieldaddr", Args: []*Term{{Op: "param", Aux: "d"}}, Obj: dv.fields["channel"]}}}).String()
		b := boundsFrom(atoms, cur, bound{lo: 0, hi: 15, hasLo: true, hasHi: true})
		t := vw.Term(st.Val)
		okStore := false
		why := ""
		if k, isK := t.IsIntConst(); isK {
			okStore, why = k >= 0 && k <= 15, fmt.Sprintf("constant %d", k)
		} else if t.Op == "binop" && (t.Aux == "+" || t.Aux == "-") && t.Args[0].String() == cur {
			if k, isK := t.Args[1].IsIntConst(); isK {
				if t.Aux == "-" {
					k = -k
				}
				okStore = b.lo+k >= 0 && b.hi+k <= 15
				why = fmt.Sprintf("channel in %s under the dominating guard, stores channel%+d", b, k)
			}
		}
		if okStore {
			c.OK(rule, key, pos, why)
		} else {
			c.Bad(rule, key, pos, "store does not preserve Device.channel in [0,15]: "+t.String()+" with "+why)
		}
	}
}

// ruleEstablishInvariants: the invariants assumed by the send-site proofs.
func ruleEstablishInvariants(c *Ctx, dv *dev, pf *parserFacts) {
	ruleChannelInvariant(c, dv, pf, "R5.3")
	// (b) Device.velocity in [1,127]
	for _, s := range storesToField(c.P, dv.fields["velocity"]) {
		st := s.Instr.(*ssa.Store)
		key := "inv(Device.velocity in [1,127])/store@" + shortFn(s.Fn)
		pos := c.P.Pos(st.Pos())
		src, minus, ok := defaultsSource(st.Val)
		if s.Fn != dv.fn["NewDevice"] || !ok || src != "Velocity" || minus != 0 {
			c.Bad("R5.4", key, pos, "velocity is not initialised from Defaults.Velocity in NewDevice only")
			continue
		}
		for _, r := range pf.checkBounds("Defaults", "Velocity") {
			if r.OK {
				c.OK("R5.4", key, pos, "Defaults.Velocity in [1,127] established by the parser: "+r.Why)
			} else {
				c.Bad("R5.4", key, r.Pos, "Defaults.Velocity not proven within 1..127: "+r.Why)
			}
		}
	}
	// (c) tracker entries hold (note in [0,127], channel in [0,15])
	for _, spec := range []struct{ fn, tracker string }{{"NoteOn", "noteTracker"}, {"AnalogNoteOn", "analogNoteTracker"}} {
		fn := dv.fn[spec.fn]
		n := 0
		for _, b := range fn.Blocks {
			for _, in := range b.Instrs {
				mu, ok := in.(*ssa.MapUpdate)
				if !ok || !derivesFromField(mu.Map, dv.fields[spec.tracker], map[ssa.Value]bool{}) {
					continue
				}
				n++
				key := fmt.Sprintf("inv(%s entries)/store@%s", spec.tracker, shortFn(fn))
				pos := c.P.Pos(mu.Pos())
				lit := literalOf(mu.Value)
				if lit == nil {
					// built elsewhere (a small constructor of a named pair type): the scalars the two elements can hold
					l0, ok0 := pf.componentLeaves(mu.Value, nil, 0, 0)
					l1, ok1 := pf.componentLeaves(mu.Value, nil, 1, 0)
					if !ok0 || !ok1 || len(l0) == 0 || len(l1) == 0 {
						c.Undec("R5.3", key, pos, "tracker value is not an array literal")
						continue
					}
					bad := ""
					var whys []string
					for i, ls := range [][]leafVal{l0, l1} {
						hi := int64(127)
						if i == 1 {
							hi = 15
						}
						for _, l := range ls {
							if l.v == nil {
								bad = "element not resolved"
								continue
							}
							okv, why := pf.proveRange(l.v, l.at, 0, hi, 0)
							if !okv {
								bad = why
							}
							whys = append(whys, why)
						}
					}
					if bad == "" {
						c.OK("R5.3", key, pos, "note / channel: "+strings.Join(whys, "; "))
					} else {
						c.Bad("R5.3", key, pos, "tracker entry not proven in range: "+bad)
					}
					continue
				}
				elems := arrayElems(lit)
				if len(elems) != 2 {
					c.Undec("R5.3", key, pos, "tracker value is not a 2-element array literal")
					continue
				}
				ok0, why0 := pf.proveRange(elems[0], mu.Block(), 0, 127, 0)
				ok1, why1 := pf.proveRange(elems[1], mu.Block(), 0, 15, 0)
				if ok0 && ok1 {
					c.OK("R5.3", key, pos, "note: "+why0+"; channel: "+why1)
				} else {
					c.Bad("R5.3", key, pos, fmt.Sprintf("tracker entry not proven in range: note %v (%s), channel %v (%s)", ok0, why0, ok1, why1))
				}
			}
		}
		if n == 0 {
			c.Undec("R5.3", "inv("+spec.tracker+" entries)", c.P.Pos(fn.Pos()), "no store into the tracker found in "+spec.fn)
		}
	}
	// other writers of the trackers would break the container invariant
	for _, tr := range []string{"noteTracker", "analogNoteTracker"} {
		for _, s := range c.P.writersOfField(dv.fields[tr]) {
			if s.What != "map update" {
				continue
			}
			name := dv.refName(topFunc(s.Fn))
			if !sameAnchorName(name, "NoteOn") && !sameAnchorName(name, "AnalogNoteOn") {
				c.Bad("R5.3", "inv("+tr+" entries)/store@"+shortFn(s.Fn), c.P.Pos(s.Instr.Pos()), "tracker entry stored outside NoteOn/AnalogNoteOn: container invariant not established there")
			}
		}
	}
	// (d) controller numbers from the parser
	for _, f := range []string{"CC", "CCNeg"} {
		res := pf.checkBounds("Analog", f)
		if len(res) == 0 {
			c.Undec("R5.4", "inv(Analog."+f+" in [0,119])", "-", "no Analog literal sets "+f)
		}
		for _, r := range res {
			if r.OK {
				c.OK("R5.4", "inv(Analog."+f+" in [0,119])/"+r.Key, r.Pos, r.Why)
			} else {
				c.Bad("R5.4", "inv(Analog."+f+" in [0,119])/"+r.Key, r.Pos, "controller number not proven within 0..119: "+r.Why)
			}
		}
	}
}

func arrayElems(lit *ssa.Alloc) []ssa.Value {
	at, ok := deref(lit.Type()).Underlying().(*types.Array)
	if !ok {
		return nil
	}
	out := make([]ssa.Value, at.Len())
	refs := lit.Referrers()
	if refs == nil {
		return nil
	}
	for _, r := range *refs {
		ia, ok := r.(*ssa.IndexAddr)
		if !ok {
			continue
		}
		k, isK := ia.Index.(*ssa.Const)
		if !isK {
			return nil
		}
		for _, rr := range *ia.Referrers() {
			if st, ok := rr.(*ssa.Store); ok && st.Addr == ia && int(k.Int64()) < len(out) {
				out[k.Int64()] = st.Val
			}
		}
	}
	for _, v := range out {
		if v == nil {
			return nil
		}
	}
	return out
}

// ruleConfigOnlyFromParser: config.Config / Defaults / Key / Analog literals exist only in ParseData (non-test code).
func ruleConfigOnlyFromParser(c *Ctx, pf *parserFacts, rule string) {
	for _, typ := range []string{"Config", "Defaults", "Key", "Analog"} {
		foreign := pf.foreignLiterals(typ)
		if len(foreign) == 0 {
			c.OK(rule, "literals(config."+typ+")", c.P.Pos(pf.fn.Pos()), fmt.Sprintf("%d literal(s), all in ParseData", len(pf.literals(typ))))
			continue
		}
		for _, a := range foreign {
			c.Bad(rule, "literals(config."+typ+")@"+shortFn(a.Parent()), c.P.Pos(a.Pos()), "config."+typ+" value built outside ParseData: parser-established bounds do not cover it")
		}
	}
}

// sliceElemCtorCalls: every element the slice value s can hold is a constructor result: s is returned by a helper of the
// package whose every return is nil or a slice literal of constructor results (or s is such a literal itself).
func sliceElemCtorCalls(s ssa.Value, dv *dev, seen map[ssa.Value]bool) ([]*ssa.Call, bool) {
	if seen[s] {
		return nil, true
	}
	seen[s] = true
	switch x := s.(type) {
	case *ssa.Const:
		return nil, x.Value == nil // the nil slice has no elements
	case *ssa.Alloc:
		// a local array the messages are prepared in: every element store is a constructor result
		var out []*ssa.Call
		n := 0
		for _, r := range *x.Referrers() {
			ia, ok := r.(*ssa.IndexAddr)
			if !ok {
				if _, isLoad := r.(*ssa.UnOp); isLoad {
					continue
				}
				if _, isDbg := r.(*ssa.DebugRef); isDbg {
					continue
				}
				if _, isSl := r.(*ssa.Slice); isSl {
					continue // events[:count]
				}
				if st, isSt := r.(*ssa.Store); isSt && st.Addr == ssa.Value(x) {
					// the whole array assigned at once (an array parameter spilled, the result of a planning helper)
					cs, ok := sliceElemCtorCalls(st.Val, dv, seen)
					if !ok {
						return nil, false
					}
					out = append(out, cs...)
					n++
					continue
				}
				return nil, false
			}
			for _, rr := range *ia.Referrers() {
				switch y := rr.(type) {
				case *ssa.Store:
					if y.Addr != ssa.Value(ia) {
						return nil, false
					}
					cs, ok := ctorCalls(y.Val, dv, seen)
					if !ok {
						return nil, false
					}
					out = append(out, cs...)
					n++
				case *ssa.UnOp:
				default:
					return nil, false
				}
			}
		}
		return out, n > 0
	case *ssa.UnOp:
		// the array copied for a range loop
		if a, ok := x.X.(*ssa.Alloc); ok && x.Op == token.MUL {
			return sliceElemCtorCalls(a, dv, seen)
		}
		return nil, false
	case *ssa.Parameter:
		// the (variadic) list parameter of a sending helper: every static call site
		sites, all := staticCallSites(dv.p, x.Parent())
		idx := paramIndex(x)
		if !all || len(sites) == 0 || idx < 0 {
			return nil, false
		}
		var out []*ssa.Call
		for _, cs := range sites {
			if idx >= len(cs.Common().Args) {
				return nil, false
			}
			cc, ok := sliceElemCtorCalls(cs.Common().Args[idx], dv, seen)
			if !ok {
				return nil, false
			}
			out = append(out, cc...)
		}
		return out, true
	case *ssa.Phi:
		var out []*ssa.Call
		for _, e := range x.Edges {
			cs, ok := sliceElemCtorCalls(e, dv, seen)
			if !ok {
				return nil, false
			}
			out = append(out, cs...)
		}
		return out, true
	case *ssa.Extract:
		// one of several results of a planning helper: (events [2]Event, count int)
		call, ok := x.Tuple.(*ssa.Call)
		if !ok {
			return nil, false
		}
		f := call.Call.StaticCallee()
		if f == nil || f.Blocks == nil || !dv.p.OwnedFunc(f) {
			return nil, false
		}
		var out []*ssa.Call
		nret := 0
		for _, b := range f.Blocks {
			if ret, ok := b.Instrs[len(b.Instrs)-1].(*ssa.Return); ok && b != f.Recover && x.Index < len(ret.Results) {
				cs, ok := sliceElemCtorCalls(ret.Results[x.Index], dv, seen)
				if !ok {
					return nil, false
				}
				out = append(out, cs...)
				nret++
			}
		}
		return out, nret > 0
	case *ssa.Slice:
		arr, ok := x.X.(*ssa.Alloc)
		if !ok {
			return nil, false
		}
		if x.Low != nil || x.High != nil {
			// a part of a local array: its elements are among the array's
			return sliceElemCtorCalls(arr, dv, seen)
		}
		var out []*ssa.Call
		n := 0
		for _, r := range *arr.Referrers() {
			switch y := r.(type) {
			case *ssa.IndexAddr:
				for _, rr := range *y.Referrers() {
					st, isStore := rr.(*ssa.Store)
					if !isStore || st.Addr != ssa.Value(y) {
						return nil, false
					}
					cs, ok := ctorCalls(st.Val, dv, seen)
					if !ok {
						return nil, false
					}
					out = append(out, cs...) // (empty when the same constructor call was already counted through another list)
					n++
				}
			case *ssa.Slice:
			default:
				return nil, false
			}
		}
		return out, n > 0
	case *ssa.Call:
		f := x.Call.StaticCallee()
		if f == nil || f.Blocks == nil || !dv.p.OwnedFunc(f) || f.Signature.Results().Len() != 1 {
			return nil, false
		}
		var out []*ssa.Call
		for _, b := range f.Blocks {
			for _, in := range b.Instrs {
				if ret, ok := in.(*ssa.Return); ok {
					cs, ok := sliceElemCtorCalls(ret.Results[0], dv, seen)
					if !ok {
						return nil, false
					}
					out = append(out, cs...)
				}
			}
		}
		return out, len(out) > 0
	}
	return nil, false
}

// closureCallSites: the call sites of a function literal that is only ever called: directly, through the local variable
// it was assigned to once, or through that variable captured by sibling closures. ok=false when the literal escapes
// any other way (passed on, returned, stored elsewhere, the variable reassigned).
func closureCallSites(fn *ssa.Function) ([]ssa.CallInstruction, bool) {
	var out []ssa.CallInstruction
	ok := true
	var useVal func(v ssa.Value)
	var useCell func(cell ssa.Value, maker ssa.Value)
	useVal = func(v ssa.Value) { // v holds the closure
		refs := v.Referrers()
		if refs == nil {
			ok = false
			return
		}
		for _, r := range *refs {
			switch y := r.(type) {
			case ssa.CallInstruction:
				if y.Common().Value != v {
					ok = false // passed as an argument
					return
				}
				out = append(out, y)
			case *ssa.Store:
				if y.Val != v {
					ok = false
					return
				}
				if _, isAlloc := y.Addr.(*ssa.Alloc); !isAlloc {
					ok = false
					return
				}
				useCell(y.Addr, v)
			case *ssa.DebugRef:
			default:
				ok = false
				return
			}
		}
	}
	seenCell := map[ssa.Value]bool{}
	useCell = func(cell ssa.Value, maker ssa.Value) {
		if seenCell[cell] {
			return
		}
		seenCell[cell] = true
		refs := cell.Referrers()
		if refs == nil {
			ok = false
			return
		}
		for _, r := range *refs {
			switch y := r.(type) {
			case *ssa.Store:
				if y.Addr == cell && y.Val != maker && maker != nil {
					ok = false // reassigned
					return
				}
				if y.Addr != cell {
					ok = false
					return
				}
			case *ssa.UnOp:
				if y.Op != token.MUL {
					ok = false
					return
				}
				useVal(y)
			case *ssa.MakeClosure:
				child := y.Fn.(*ssa.Function)
				for i, b := range y.Bindings {
					if b == cell && i < len(child.FreeVars) {
						useCell(child.FreeVars[i], nil)
					}
				}
			case *ssa.DebugRef:
			default:
				ok = false
				return
			}
		}
	}
	refs := fn.Referrers()
	if refs == nil {
		return nil, false
	}
	for _, r := range *refs {
		mc, isMC := r.(*ssa.MakeClosure)
		if !isMC {
			if ci, isCall := r.(ssa.CallInstruction); isCall && ci.Common().Value == ssa.Value(fn) {
				out = append(out, ci) // a literal without free variables, called in place
				continue
			}
			if st, isSt := r.(*ssa.Store); isSt && st.Val == ssa.Value(fn) {
				if _, isAlloc := st.Addr.(*ssa.Alloc); isAlloc {
					useCell(st.Addr, fn)
					continue
				}
			}
			return nil, false
		}
		useVal(mc)
	}
	if !ok || len(out) == 0 {
		return nil, false
	}
	return out, true
}

// ruleConfigFieldsOnlyFromParser: the field and container invariants of the byte proofs (defaults.channel in 1..16, velocity,
// controller numbers, offsets ...) are established by the parser's validation. They hold for the configuration a device
// is built from only if nothing between the parser and NewDevice writes those fields: no function outside package config
// stores into a field of a configuration type (the device package is covered by R3.7).
func ruleConfigFieldsOnlyFromParser(c *Ctx, pf *parserFacts, rule string) {
	n, bad, badPos := 0, "", ""
	badBounded := false
	for _, fn := range c.P.Funcs {
		top := topFunc(fn)
		pp := funcPkgPath(top)
		if pp == pkgConfig || pp == "" || strings.HasSuffix(pp, "/controls") {
			continue
		}
		for _, b := range fn.Blocks {
			for _, in := range b.Instrs {
				st, ok := in.(*ssa.Store)
				if !ok {
					continue
				}
				fa, ok := st.Addr.(*ssa.FieldAddr)
				if !ok {
					continue
				}
				named, ok := deref(fa.X.Type()).(*types.Named)
				if !ok || named.Obj().Pkg() == nil || named.Obj().Pkg().Path() != pkgConfig {
					continue
				}
				if _, isStruct := named.Underlying().(*types.Struct); !isStruct {
					continue
				}
				n++
				f := fieldOfAddr(fa)
				// a value that is itself within the range the parser guarantees for that field keeps the invariant
				bounded := false
				if r, has := configFieldBounds[named.Obj().Name()+"."+f.Name()]; has {
					if ok, _ := pf.proveRange(st.Val, b, r.lo, r.hi, 0); ok {
						continue
					}
					bounded = true
				} else if !strings.Contains(pkgPathOf(top), "/cmd/") {
					continue // a field no byte proof relies on, written by library code (R3.7 covers the device package)
				}
				if bad == "" || bounded && !badBounded {
					badBounded = bounded
					bad = fmt.Sprintf("%s stores into %s.%s outside the parser: the values a device is built from are then not the validated ones (e.g. a channel of 0 makes Device.channel 255 and the panic burst malformed)", shortFn(fn), named.Obj().Name(), f.Name())
					badPos = c.P.Pos(st.Pos())
				}
			}
		}
	}
	if bad != "" {
		c.Bad(rule, "config-types/written-only-by-package-config", badPos, bad)
	} else {
		c.OK(rule, "config-types/written-only-by-package-config", "-", fmt.Sprintf("%d store(s) into fields of configuration types outside package config", n))
	}
}

// configFieldBounds: the ranges the parser establishes and the byte proofs rely on.
var configFieldBounds = map[string]rng{
	"Defaults.Channel": {1, 16}, "Defaults.Velocity": {1, 127},
	"Key.Note": {0, 127}, "Key.ChannelOffset": {0, 15},
	"Analog.CC": {0, 119}, "Analog.CCNeg": {0, 119}, "Analog.Note": {0, 127}, "Analog.NoteNeg": {0, 127},
	"Analog.ChannelOffset": {0, 15}, "Analog.ChannelOffsetNeg": {0, 15},
}

// constKinds: the integer constants v can be: a constant, a phi of such, or a parameter that every static call site of its
// function binds to such.
func constKinds(p *Program, v ssa.Value, depth int) ([]int64, bool) {
	if depth > 4 {
		return nil, false
	}
	switch x := v.(type) {
	case *ssa.Const:
		if x.Value == nil || x.Value.Kind() != constant.Int {
			return nil, false
		}
		return []int64{x.Int64()}, true
	case *ssa.Convert:
		return constKinds(p, x.X, depth+1)
	case *ssa.Phi:
		var out []int64
		for _, e := range x.Edges {
			ks, ok := constKinds(p, e, depth+1)
			if !ok {
				return nil, false
			}
			out = append(out, ks...)
		}
		return out, true
	case *ssa.Parameter:
		sites, ok := staticCallSites(p, x.Parent())
		idx := paramIndex(x)
		if !ok || idx < 0 {
			return nil, false
		}
		var out []int64
		for _, cs := range sites {
			if idx >= len(cs.Common().Args) {
				return nil, false
			}
			ks, ok := constKinds(p, cs.Common().Args[idx], depth+1)
			if !ok {
				return nil, false
			}
			out = append(out, ks...)
		}
		return out, len(out) > 0
	}
	return nil, false
}
