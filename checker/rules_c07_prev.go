package main

import (
	"go/token"
	"go/types"

	"golang.org/x/tools/go/ssa"
)

// The side bookkeeping of bidirectional controllers may be kept in two ways: a flag per controller ("its 0 has been sent",
// Device.ccZeroed: R7.1, flag form) or by asking on which side the axis was when its last position was transmitted
// (previous-side form). Both make the receiver's controller of the side that was left 0. The second form needs the
// previous position in the coordinates of the new one: whatever is done to the new position between the duplicate
// filter and the side test (flip) must be done to the previous one too.

// lastPositionValue: p is the value read from Device.lastAnalogValue[..][..] (plain lookup or the value half of a
// comma-ok lookup).
func lastPositionValue(f *types.Var, p ssa.Value) bool {
	switch x := p.(type) {
	case *ssa.Extract:
		if x.Index != 0 {
			return false
		}
		lk, ok := x.Tuple.(*ssa.Lookup)
		return ok && derivesFromField(lk.X, f, map[ssa.Value]bool{})
	case *ssa.Lookup:
		if _, isMap := x.X.Type().Underlying().(*types.Map); !isMap {
			return false
		}
		if _, inner := x.Type().Underlying().(*types.Map); inner {
			return false
		}
		return derivesFromField(x.X, f, map[ssa.Value]bool{})
	}
	return false
}

// fromLastPosition: v is computed from the remembered position (through phis and arithmetic).
func fromLastPosition(f *types.Var, v ssa.Value, seen map[ssa.Value]bool) bool {
	if v == nil || seen[v] {
		return false
	}
	seen[v] = true
	if lastPositionValue(f, v) {
		return true
	}
	switch x := v.(type) {
	case *ssa.Phi:
		for _, e := range x.Edges {
			if fromLastPosition(f, e, seen) {
				return true
			}
		}
	case *ssa.UnOp:
		if x.Op == token.SUB {
			return fromLastPosition(f, x.X, seen)
		}
		if a, ok := x.X.(*ssa.Alloc); ok && x.Op == token.MUL && a.Referrers() != nil {
			for _, r := range *a.Referrers() {
				if st, ok := r.(*ssa.Store); ok && st.Addr == a && fromLastPosition(f, st.Val, seen) {
					return true
				}
			}
		}
	case *ssa.BinOp:
		return fromLastPosition(f, x.X, seen) || fromLastPosition(f, x.Y, seen)
	case *ssa.Convert:
		return fromLastPosition(f, x.X, seen)
	case *ssa.ChangeType:
		return fromLastPosition(f, x.X, seen)
	}
	return false
}

// sameCoordinates: p is computed from the remembered position exactly as v is computed from the position `shaped` that the
// handler records: the same phis of the same blocks, the same negations and the same arithmetic with the same constants.
func sameCoordinates(f *types.Var, v, p ssa.Value, shaped map[ssa.Value]bool, depth int) bool {
	if depth > 8 || v == nil || p == nil {
		return false
	}
	if lastPositionValue(f, p) {
		return shaped[v]
	}
	switch pv := p.(type) {
	case *ssa.Phi:
		vv, ok := v.(*ssa.Phi)
		if !ok || vv.Block() != pv.Block() || len(vv.Edges) != len(pv.Edges) {
			return false
		}
		for i := range pv.Edges {
			if !sameCoordinates(f, vv.Edges[i], pv.Edges[i], shaped, depth+1) {
				return false
			}
		}
		return true
	case *ssa.UnOp:
		vv, ok := v.(*ssa.UnOp)
		return ok && vv.Op == pv.Op && pv.Op == token.SUB && sameCoordinates(f, vv.X, pv.X, shaped, depth+1)
	case *ssa.BinOp:
		vv, ok := v.(*ssa.BinOp)
		if !ok || vv.Op != pv.Op {
			return false
		}
		sameConst := func(a, b ssa.Value) bool {
			ka, ok1 := a.(*ssa.Const)
			kb, ok2 := b.(*ssa.Const)
			return ok1 && ok2 && ka.Value != nil && kb.Value != nil && ka.Value.ExactString() == kb.Value.ExactString()
		}
		if sameConst(vv.X, pv.X) {
			return sameCoordinates(f, vv.Y, pv.Y, shaped, depth+1)
		}
		if sameConst(vv.Y, pv.Y) {
			return sameCoordinates(f, vv.X, pv.X, shaped, depth+1)
		}
	}
	return false
}

// condOperand: the non-constant operand of the comparison an If tests (through negations).
func condOperand(ifi *ssa.If) ssa.Value {
	c := ifi.Cond
	for {
		u, ok := c.(*ssa.UnOp)
		if !ok || u.Op != token.NOT {
			break
		}
		c = u.X
	}
	b, ok := c.(*ssa.BinOp)
	if !ok {
		return nil
	}
	if _, isK := b.X.(*ssa.Const); isK {
		return b.Y
	}
	return b.X
}

// recordedPositions: the values stored into Device.lastAnalogValue by the functions in hosts.
func recordedPositions(f *types.Var, hosts []*ssa.Function) map[ssa.Value]bool {
	out := map[ssa.Value]bool{}
	for _, fn := range hosts {
		for _, b := range fn.Blocks {
			for _, in := range b.Instrs {
				if mu, ok := in.(*ssa.MapUpdate); ok && derivesFromField(mu.Map, f, map[ssa.Value]bool{}) {
					if _, inner := mu.Value.Type().Underlying().(*types.Map); !inner {
						out[mu.Value] = true
					}
				}
			}
		}
	}
	return out
}
