package main

import (
	"crypto/sha256"
	"encoding/json"
	"fmt"
	"os"
	"os/exec"
	"path/filepath"
	"sort"
	"strings"
	"sync"
)

type mutantResult struct {
	Patch    string `json:"patch"`
	Kind     string `json:"kind"`   // breaking | equivalent
	Result   string `json:"result"` // detected | MISSED | silent | FALSE-ALARM | not-applicable | does-not-load
	Reported string `json:"reported,omitempty"`
}

// runMutantsImpl (thorough tier): applies every stored breaking change of this property to a
// scratch copy of the repository and re-runs the property's rules on it (one process per
// mutant).  Breaking changes must be reported, behaviour-preserving ones must not.  The
// outcome is recorded in the evidence; it does not change the verdict on /repo itself.
func runMutantsImpl(c *Ctx, verif, repo string, extra map[string]any) {
	type job struct {
		patch string
		kind  string
	}
	var jobs []job
	add := func(glob, kind string) {
		ms, _ := filepath.Glob(glob)
		sort.Strings(ms)
		for _, m := range ms {
			jobs = append(jobs, job{m, kind})
		}
	}
	add(filepath.Join(verif, "mutants", c.Property, "*.diff"), "breaking")
	add(filepath.Join(verif, "mutants", c.Property, "equivalent", "*.diff"), "equivalent")
	add(filepath.Join(verif, "benign", "*.diff"), "equivalent")
	// seeded changes written by independent sub-agents: meta.json names the property
	seeded, _ := filepath.Glob(filepath.Join(verif, "seeded", "*", "meta.json"))
	sort.Strings(seeded)
	for _, m := range seeded {
		data, err := os.ReadFile(m)
		if err != nil {
			continue
		}
		var meta struct {
			Property string `json:"property"`
			Obsolete string `json:"obsolete_since"`
		}
		if json.Unmarshal(data, &meta) != nil {
			continue
		}
		if meta.Property == c.Property && meta.Obsolete == "" { // changes that a later fix made harmless are kept for the record only
			jobs = append(jobs, job{filepath.Join(filepath.Dir(m), "patch.diff"), "breaking"})
		}
	}
	if len(jobs) == 0 {
		return
	}
	self, err := os.Executable()
	if err != nil {
		c.Note("mutant run skipped: %v", err)
		return
	}
	results := make([]mutantResult, len(jobs))
	sem := make(chan struct{}, 6)
	var wg sync.WaitGroup
	for i, j := range jobs {
		wg.Add(1)
		go func(i int, j job) {
			defer wg.Done()
			sem <- struct{}{}
			defer func() { <-sem }()
			results[i] = runOneMutant(self, verif, repo, c.Property, j.patch, j.kind)
		}(i, j)
	}
	wg.Wait()
	det, miss, fa, na := 0, 0, 0, 0
	for _, r := range results {
		switch r.Result {
		case "detected":
			det++
		case "MISSED":
			miss++
		case "FALSE-ALARM":
			fa++
		case "not-applicable", "does-not-load":
			na++
		}
	}
	extra["mutants"] = results
	extra["mutants_summary"] = fmt.Sprintf("%d breaking changes detected, %d missed, %d false alarms on behaviour-preserving edits, %d not applicable to the current tree", det, miss, fa, na)
	fmt.Printf("mutants: %s\n", extra["mutants_summary"])
	for _, r := range results {
		if r.Result == "MISSED" || r.Result == "FALSE-ALARM" || r.Result == "not-applicable" || r.Result == "does-not-load" {
			fmt.Printf("  %s %s\n", r.Result, r.Patch)
		}
	}
}

func runOneMutant(self, verif, repo, prop, patch, kind string) mutantResult {
	res := mutantResult{Patch: strings.TrimPrefix(patch, verif+"/"), Kind: kind}
	dir, err := os.MkdirTemp("", "hidimut")
	if err != nil {
		res.Result = "not-applicable"
		return res
	}
	defer os.RemoveAll(dir)
	cp := exec.Command("rsync", "-a", "--exclude", ".git", repo+"/", dir+"/")
	if out, err := cp.CombinedOutput(); err != nil {
		res.Result, res.Reported = "not-applicable", string(out)
		return res
	}
	ap := exec.Command("patch", "-p1", "-s", "--no-backup-if-mismatch", "-i", patch)
	ap.Dir = dir
	if out, err := ap.CombinedOutput(); err != nil {
		res.Result, res.Reported = "not-applicable", "patch does not apply to the current tree: "+firstLine(string(out))
		return res
	}
	var text string
	code := 0
	if kind == "equivalent" {
		// behaviour-preserving patches are checked against every property; one `-property all` run per patch is shared by
		// the thorough runs of all 20 properties through a cache keyed by patch, checker binary and repository content
		text, code = runAllCached(self, verif, repo, dir, patch, prop)
	} else {
		run := exec.Command(self, "-repo", dir, "-verif", verif, "-property", prop, "-tier", "quick", "-no-evidence")
		out, err := run.CombinedOutput()
		text = string(out)
		if ee, ok := err.(*exec.ExitError); ok {
			code = ee.ExitCode()
		}
	}
	if strings.Contains(text, "CHECKER FAILURE: load failed") {
		res.Result, res.Reported = "does-not-load", firstLine(text)
		return res
	}
	var lines []string
	for _, l := range strings.Split(text, "\n") {
		if strings.Contains(l, "VIOLATED") || strings.Contains(l, "UNDECIDED") {
			l = strings.TrimSpace(l)
			if len(l) > 220 {
				l = l[:220]
			}
			lines = append(lines, l)
		}
	}
	reported := code != 0
	switch {
	case kind == "breaking" && reported:
		res.Result = "detected"
	case kind == "breaking":
		res.Result = "MISSED"
	case reported:
		res.Result = "FALSE-ALARM"
	default:
		res.Result = "silent"
	}
	if len(lines) > 3 {
		lines = lines[:3]
	}
	res.Reported = strings.Join(lines, " | ")
	return res
}

// runAllCached returns the output lines and exit status that concern property prop of `hidicheck -property all` on
// the patched copy in dir; results are cached under <verif>/.cache/benign (safe to delete at any time).
func runAllCached(self, verif, repo, dir, patch, prop string) (string, int) {
	h := sha256.New()
	for _, f := range []string{patch, self} {
		if data, err := os.ReadFile(f); err == nil {
			h.Write(data)
		}
	}
	filepath.Walk(repo, func(path string, info os.FileInfo, err error) error {
		if err != nil {
			return nil
		}
		if info.IsDir() {
			if info.Name() == ".git" {
				return filepath.SkipDir
			}
			return nil
		}
		if strings.HasSuffix(path, ".go") || strings.HasSuffix(path, "go.mod") {
			if data, err := os.ReadFile(path); err == nil {
				h.Write([]byte(path))
				h.Write(data)
			}
		}
		return nil
	})
	key := fmt.Sprintf("%x", h.Sum(nil))[:32]
	cdir := filepath.Join(verif, ".cache", "benign")
	cfile := filepath.Join(cdir, key+".json")
	type entry struct {
		Code int    `json:"code"`
		Text string `json:"text"`
	}
	res := map[string]entry{}
	if data, err := os.ReadFile(cfile); err == nil && json.Unmarshal(data, &res) == nil {
		if e, ok := res[prop]; ok {
			return e.Text, e.Code
		}
	}
	run := exec.Command(self, "-repo", dir, "-verif", verif, "-property", "all")
	out, _ := run.CombinedOutput()
	text := string(out)
	res = map[string]entry{}
	if strings.Contains(text, "CHECKER FAILURE") {
		return text, 1 // not cached: a load failure concerns every property
	}
	// split the output per property: each property's summary line is followed by its VIOLATED/UNDECIDED lines
	curID := ""
	for _, l := range strings.Split(text, "\n") {
		if strings.HasPrefix(l, "property=") {
			curID = strings.TrimPrefix(strings.Fields(l)[0], "property=")
			code := 0
			if !strings.Contains(l, " violations=0 ") {
				code = 1
			}
			res[curID] = entry{Code: code, Text: l}
			continue
		}
		if curID != "" && (strings.Contains(l, "VIOLATED") || strings.Contains(l, "UNDECIDED")) {
			e := res[curID]
			e.Text += "\n" + l
			res[curID] = e
		}
	}
	if data, err := json.Marshal(res); err == nil {
		os.MkdirAll(cdir, 0o777)
		tmp := fmt.Sprintf("%s.%d.tmp", cfile, os.Getpid())
		if os.WriteFile(tmp, data, 0o666) == nil {
			os.Rename(tmp, cfile)
		}
	}
	if e, ok := res[prop]; ok {
		return e.Text, e.Code
	}
	return text, 1
}

func firstLine(s string) string {
	s = strings.TrimSpace(s)
	if i := strings.Index(s, "\n"); i > 0 {
		s = s[:i]
	}
	if len(s) > 200 {
		s = s[:200]
	}
	return s
}
