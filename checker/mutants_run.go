package main

func runMutantsImpl(c *Ctx, verif, repo string, extra map[string]any) {}
