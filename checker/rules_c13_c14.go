package main

import (
	"fmt"
	"go/constant"
	"go/token"
	"go/types"
	"strings"

	"golang.org/x/tools/go/ssa"
)

func init() {
	registry["C13"] = checkC13
	registry["C14"] = checkC14
}

// ---- C13 ----------------------------------------------------------------------------------------

func checkC13(c *Ctx) {
	dv := newDev(c, "R13.0")
	if !dv.ok || !dv.need("R13.0", []string{"Panic", "NewDevice", "NoteOff", "NoteOn"}, []string{"channel", "outputEvents", "externalNoteTracker", "externalTrackerMutex", "noteTracker", "activeNotesCounter"}) {
		return
	}
	fn := dv.fn["Panic"]
	c.Fn(shortFn(fn))
	pf := newParserFacts(c)
	pos := c.P.Pos(fn.Pos())
	// R13.1 emissions
	var sites []sendSite
	for _, s := range midiSendSites(c.P) {
		if s.fn == fn {
			sites = append(sites, s)
		}
	}
	ff := dv.transitiveFacts(fn, actionTable{})
	// decided by complete unrolling when the burst is not written as "one send, then one counted loop of sends" (e.g. the 129
	// messages are prepared in an array first): every returning path sends exactly Control Change(current channel, All Notes
	// Off, 0) and Note Off(current channel, n, 0) for each n in 0..127, once each, and nothing else
	{
		allNotesOff, _ := c.P.constValue(pkgMidi, "AllNotesOff")
		// R13.10 "All Notes Off" is channel-mode controller 123 (MIDI 1.0); the rules above compare with the project's constant,
		// this one compares the constant with the number a receiver understands
		c.Check(allNotesOff != nil && constant.Compare(allNotesOff, token.EQL, constant.MakeInt64(123)), "R13.10", "midi.AllNotesOff=123", c.P.Pos(fn.Pos()),
			"the constant the panic burst sends as controller number is 123", fmt.Sprintf("midi.AllNotesOff is %v, not 123: the panic burst sends a controller message no receiver takes for All Notes Off", allNotesOff))
	}
	if ok, why := panicBurstUnrolled(c, dv, fn); ok {
		c.OK("R13.1", "device.Panic/sends-only-in-Panic", pos, why)
		c.OK("R13.1", "device.Panic/send#1", pos, "ControlChange(current channel, AllNotesOff=123, 0) on every path, once (unrolled)")
		c.OK("R13.1", "device.Panic/send#2", pos, "NoteOff(current channel, n, 0) for every n in [0,127], once each (unrolled)")
		c.OK("R13.1", "device.Panic/effect-list", pos, "one AllNotesOff + 128 Note Offs on every returning path")
		panicRest(c, dv, fn, pf, ff)
		return
	}
	c.Check(len(ff.sends) == len(sites), "R13.1", "device.Panic/sends-only-in-Panic", pos,
		fmt.Sprintf("%d send(s), all directly in Panic", len(sites)), fmt.Sprintf("Panic reaches %d MIDI sends but only %d are in its own body: a callee emits something", len(ff.sends), len(sites)))
	var returns []*ssa.BasicBlock
	for _, b := range fn.Blocks {
		if b == fn.Recover {
			continue // only reached when a deferred call recovers a panic; Panic defers no recover
		}
		if _, ok := b.Instrs[len(b.Instrs)-1].(*ssa.Return); ok {
			returns = append(returns, b)
		}
	}
	dominatesReturns := func(b *ssa.BasicBlock) bool {
		for _, r := range returns {
			if !b.Dominates(r) {
				return false
			}
		}
		return len(returns) > 0
	}
	nCC, nOff := 0, 0
	allNotesOff, _ := c.P.constValue(pkgMidi, "AllNotesOff")
	for i, s := range sites {
		key := fmt.Sprintf("device.Panic/send#%d", i+1)
		spos := c.P.Pos(s.instr.Pos())
		calls, ok := ctorCalls(s.val, dv, map[ssa.Value]bool{})
		if !ok || len(calls) != 1 {
			c.Bad("R13.1", key, spos, "panic sends something that is not a single constructor result")
			continue
		}
		call := calls[0]
		args := call.Call.Args
		isChan := func(v ssa.Value) bool {
			u, ok := v.(*ssa.UnOp)
			return ok && u.Op == token.MUL && fieldOfAddr(u.X) == dv.fields["channel"]
		}
		isConst := func(v ssa.Value, want int64) bool {
			k, ok := v.(*ssa.Const)
			return ok && k.Value != nil && k.Value.Kind() == constant.Int && k.Int64() == want
		}
		switch call.Call.StaticCallee().Name() {
		case "ControlChangeEvent":
			an, _ := constant.Int64Val(allNotesOff)
			good := isChan(args[0]) && isConst(args[1], an) && isConst(args[2], 0)
			inLoop := false
			for _, b := range fn.Blocks {
				_ = b
			}
			if good && dominatesReturns(s.instr.Block()) && !inCycle(s.instr.Block()) {
				nCC++
				c.OK("R13.1", key, spos, "ControlChange(current channel, AllNotesOff=123, 0) on every path, once")
			} else {
				c.Bad("R13.1", key, spos, fmt.Sprintf("expected exactly ControlChangeEvent(d.channel, AllNotesOff, 0) executed once on every path (args ok=%v, inLoop=%v)", good, inLoop))
			}
		case "NoteEvent":
			lo, hi, isLoop := countedLoopRange(args[2])
			good := isConst(args[0], midiNoteOff) && isChan(args[1]) && isConst(args[3], 0)
			if !good {
				c.Bad("R13.1", key, spos, "expected NoteEvent(NoteOff, d.channel, <note>, 0): a panic must not emit anything that can start a sound and must address the current channel")
				continue
			}
			if !isLoop || lo != 0 || hi != 127 {
				c.Bad("R13.1", key, spos, fmt.Sprintf("the explicit Note Off loop covers notes [%d,%d] (counted loop=%v), required exactly [0,127]", lo, hi, isLoop))
				continue
			}
			// executed on every iteration: the send's block dominates the latch (block of the increment)
			phi := args[2].(*ssa.Phi)
			var step *ssa.BinOp
			for _, e := range phi.Edges {
				if bo, ok := e.(*ssa.BinOp); ok {
					step = bo
				}
			}
			if step == nil || !s.instr.Block().Dominates(step.Block()) || !dominatesReturnsVia(phi.Block(), returns) {
				c.Bad("R13.1", key, spos, "the Note Off is not sent on every iteration of a loop that every path executes")
				continue
			}
			nOff++
			c.OK("R13.1", key, spos, "NoteOff(current channel, n, 0) for every n in the counted loop [0,127]")
		default:
			c.Bad("R13.1", key, spos, "panic emits a "+call.Call.StaticCallee().Name())
		}
	}
	c.Check(nCC == 1 && nOff == 1, "R13.1", "device.Panic/effect-list", pos, "one AllNotesOff + one Note Off loop", fmt.Sprintf("found %d AllNotesOff and %d Note Off loops, expected 1 and 1", nCC, nOff))
	panicRest(c, dv, fn, pf, ff)
}

// panicRest: R13.3 - R13.8.
func panicRest(c *Ctx, dv *dev, fn *ssa.Function, pf *parserFacts, ff fnFacts) {
	pos := c.P.Pos(fn.Pos())
	// R13.3 device state untouched
	allowed := map[string]bool{"externalNoteTracker": true}
	for f, ins := range ff.writes {
		key := "device.Panic/writes(Device." + f.Name() + ")"
		if allowed[f.Name()] {
			c.OK("R13.3", key, c.P.Pos(ins[0].Pos()), "panic replaces the MIDI-input highlight map")
		} else {
			c.Bad("R13.3", key, c.P.Pos(ins[0].Pos()), "panic writes Device."+f.Name()+": later releases/presses would no longer behave as if panic had not happened")
		}
	}
	for _, n := range []string{"noteTracker", "activeNotesCounter", "analogNoteTracker", "octave", "semitone", "channel", "mapping", "velocity", "actionTracker", "keyTracker", "ccZeroed", "lastAnalogValue"} {
		if dv.fields[n] == nil {
			if n == "ccZeroed" {
				continue // one of two ways to keep the controllers' side bookkeeping (R7.1): not an anchor of C13
			}
			c.Undec("R13.3", "anchor:Device."+n, "-", "field not found")
			continue
		}
		if _, w := ff.writes[dv.fields[n]]; !w {
			c.OK("R13.3", "device.Panic/untouched(Device."+n+")", pos, "not in the transitive write set of Panic")
		}
	}
	if len(ff.dyn) > 0 {
		c.Undec("R13.3", "device.Panic/dynamic-call", c.P.Pos(ff.dyn[0].Pos()), "unresolved dynamic call")
	}
	// external tracker: fresh map with 16 channel entries, swapped under its mutex
	ruleExternalReset(c, dv, fn, "R13.3")
	// R13.4 dispatch
	at := readActionTable(c, dv, "R13.4")
	panicName, _ := c.P.constString(pkgConfig, "Panic")
	c.Check(at.press[panicName] == fn, "R13.4", "action[press:panic]/dispatch", pos, "actionsPress[panic] = (*Device).Panic", "actionsPress[panic] is not (*Device).Panic")
	c.Check(at.release[panicName] == nil, "R13.4", "action[release:panic]/none", pos, "no release handler", "a release handler is registered for panic")
	// R13.5 the channel the burst is addressed to is a valid channel (d.channel is used unmasked here)
	if pf.err == nil {
		ruleChannelInvariant(c, dv, pf, "R13.5")
	}
	c.MinCount("R13.5", 3)
	ruleR12(c, dv, collisionModes(c, "R13.9"), "R13.9")                // keys still held release harmlessly: a release emits the Note Off of the recorded pair at most, in every mode - nothing that could start a sound
	c.importRules(checkC04, []string{"R4.7"}, "R13.8")                 // the panic key press is swallowed only by a real up/down pair reset
	c.importRules(constructorRules, []string{"R5.1"}, "R13.6")         // every message of the burst is its own fresh 3-byte value (129 are in flight at once)
	c.importRules(transportRules, []string{"R15.1", "R15.2"}, "R13.7") // and reaches the port once, unaltered
	c.MinCount("R13.1", 4)
	c.MinCount("R13.3", 12)
	c.DecidedClause("Panic emits exactly ControlChange(AllNotesOff) and a Note Off for each note 0..127 on the current channel, nothing else is reachable from it; its transitive write set is the MIDI-input highlight map only (trackers, counters, octave/semitone/channel/mapping untouched), so later releases go through the unchanged NoteOff (at most one redundant Note Off) and later presses see the same state")
	c.UndecidedClause("whether receivers honour CC 123")
}

func inCycle(b *ssa.BasicBlock) bool {
	seen := map[*ssa.BasicBlock]bool{}
	var stack []*ssa.BasicBlock
	stack = append(stack, b.Succs...)
	for len(stack) > 0 {
		x := stack[len(stack)-1]
		stack = stack[:len(stack)-1]
		if x == b {
			return true
		}
		if seen[x] {
			continue
		}
		seen[x] = true
		stack = append(stack, x.Succs...)
	}
	return false
}

func dominatesReturnsVia(b *ssa.BasicBlock, returns []*ssa.BasicBlock) bool {
	for _, r := range returns {
		if !b.Dominates(r) {
			return false
		}
	}
	return len(returns) > 0
}

// ruleExternalReset: the store to externalNoteTracker is a fresh map filled for channels 0..15 between Lock and Unlock of externalTrackerMutex.
func ruleExternalReset(c *Ctx, dv *dev, fn *ssa.Function, rule string) {
	// the reset may live in a helper the panic action calls on every path (called from its entry block or a block that
	// post-dominates nothing conditional: here: a static call in a block that dominates the function's return)
	host := fn
	for _, b := range fn.Blocks {
		for _, in := range b.Instrs {
			call, ok := in.(*ssa.Call)
			if !ok {
				continue
			}
			callee := call.Call.StaticCallee()
			if callee == nil || !dv.newHelpers()[callee] || callee.Blocks == nil {
				continue
			}
			touches := false
			for _, hb := range callee.Blocks {
				for _, hi := range hb.Instrs {
					var ops [8]*ssa.Value
					for _, op := range hi.Operands(ops[:0]) {
						if op == nil || *op == nil {
							continue
						}
						if derivesFromField(*op, dv.fields["externalNoteTracker"], map[ssa.Value]bool{}) {
							touches = true
						}
						if fa, ok := (*op).(*ssa.FieldAddr); ok && fieldOfAddr(fa) == dv.fields["externalNoteTracker"] {
							touches = true
						}
					}
				}
			}
			if touches && dominatesAllReturns(b, fn) {
				host = callee
			}
		}
	}
	fn = host
	stores := 0
	defer func() {
		if stores == 0 {
			ruleExternalResetInPlace(c, dv, fn, rule)
		}
	}()
	for _, b := range fn.Blocks {
		for _, in := range b.Instrs {
			st, ok := in.(*ssa.Store)
			if !ok || fieldOfAddr(st.Addr) != dv.fields["externalNoteTracker"] {
				continue
			}
			stores++
			key := "device.Panic/external-highlight-reset"
			pos := c.P.Pos(st.Pos())
			mk, isMake := throughCtor(c.P, st.Val).(*ssa.MakeMap)
			if !isMake {
				c.Bad(rule, key, pos, "externalNoteTracker is not replaced by a fresh map")
				continue
			}
			filled := false
			for _, r := range *mk.Referrers() {
				if mu, ok := r.(*ssa.MapUpdate); ok && mu.Map == mk {
					if lo, hi, ok := countedLoopRange(mu.Key); ok && lo == 0 && hi == 15 {
						if _, isMk := mu.Value.(*ssa.MakeMap); isMk {
							filled = true
						}
					}
				}
			}
			locked := heldAt(st, dv.fields["externalTrackerMutex"])
			if filled && locked {
				c.OK(rule, key, pos, "fresh map with entries for channels 0..15, stored while externalTrackerMutex is held")
			} else {
				c.Bad(rule, key, pos, fmt.Sprintf("highlight reset must store a fresh 16-channel map under externalTrackerMutex (filled=%v, locked=%v)", filled, locked))
			}
		}
	}
}

// heldAt: within the function, a Lock() of the mutex field dominates instr and no Unlock lies between on the dominator path (block-local approximation: Lock in a dominating position, Unlock after).
func heldAt(in ssa.Instruction, mutexField *types.Var) bool {
	fn := in.Parent()
	var locks, unlocks []ssa.Instruction
	for _, b := range fn.Blocks {
		for _, x := range b.Instrs {
			call, ok := x.(*ssa.Call)
			if !ok {
				continue
			}
			callee := call.Call.StaticCallee()
			if callee == nil || len(call.Call.Args) == 0 {
				continue
			}
			if !derivesFromField(call.Call.Args[0], mutexField, map[ssa.Value]bool{}) {
				continue
			}
			switch callee.Name() {
			case "Lock":
				locks = append(locks, x)
			case "Unlock":
				unlocks = append(unlocks, x)
			}
		}
	}
	before := func(a, b ssa.Instruction) bool { // a executes before b on every path to b
		if a.Block() == b.Block() {
			for _, x := range a.Block().Instrs {
				if x == a {
					return true
				}
				if x == b {
					return false
				}
			}
		}
		return a.Block().Dominates(b.Block())
	}
	for _, l := range locks {
		if !before(l, in) {
			continue
		}
		ok := true
		for _, u := range unlocks {
			if before(l, u) && before(u, in) {
				ok = false
			}
		}
		if ok {
			return true
		}
	}
	return false
}

// ---- C14 ----------------------------------------------------------------------------------------

func checkC14(c *Ctx) {
	dv := newDev(c, "R14.0")
	if !dv.ok || !dv.need("R14.0", []string{"handleKEYEvent", "checkExitSequence", "NoteOn", "NoteOff", "invokeActionPress", "checkDoubleActions", "NewDevice"},
		[]string{"keyTracker", "sigs", "actionTracker", "config"}) {
		return
	}
	ruleExitSequence(c, dv)
	ruleKeyTrackerProtocol(c, dv)
	// writers of keyTracker
	for _, s := range c.P.writersOfField(dv.fields["keyTracker"]) {
		name := dv.refName(dv.ownerOf(s.Fn))
		key := "write(Device.keyTracker)@" + shortFn(s.Fn)
		if sameAnchorName(name, "handleKEYEvent") || sameAnchorName(name, "NewDevice") {
			c.OK("R14.1", key, c.P.Pos(s.Instr.Pos()), "allowed writer")
		} else {
			c.Bad("R14.1", key, c.P.Pos(s.Instr.Pos()), "keyTracker is written outside the key handler: it would no longer mean 'keys currently down'")
		}
	}
	// single sender on the signal channel inside package device
	for _, fn := range c.P.Funcs {
		top := topFunc(fn)
		if top.Pkg == nil || top.Pkg.Pkg.Path() != pkgDevice {
			continue
		}
		for _, b := range fn.Blocks {
			for _, in := range b.Instrs {
				if s, ok := in.(*ssa.Send); ok && isSignalChan(s.Chan.Type()) {
					key := "send(os.Signal)@" + shortFn(fn)
					if fn == dv.fn["checkExitSequence"] {
						c.OK("R14.2", key, c.P.Pos(s.Pos()), "the only place a termination signal is raised")
					} else {
						c.Bad("R14.2", key, c.P.Pos(s.Pos()), "a termination signal is raised outside checkExitSequence")
					}
				}
			}
		}
	}
	ruleDispatch(c, dv, "R14.5", true, false)                     // every press and release reaches the held-key bookkeeping
	c.importRules(noSharedStateRules, []string{"R16.5"}, "R14.7") // the held-key set of a device starts empty: nothing carried over from another device or an earlier attach of the same one
	c.importRules(parsedConfigRules, []string{"R12.10"}, "R14.8") // and the parsed one is what the file says: the loader adds no exit sequence of its own
	c.importRules(configIntactRules, []string{"R3.7"}, "R14.6")   // the exit sequence compared against is the parsed one
	c.MinCount("R14.1", 3)
	c.MinCount("R14.2", 2)
	c.MinCount("R14.3", 1)
	c.DecidedClause("the pressed key is inserted into the key tracker before the exit check, the check runs on presses only, releases delete the key; the signal is sent only after a loop over the whole sequence found every key tracked (first miss returns false), an empty sequence returns false first; the completing press returns without any note/action effect and no other press is swallowed")
	c.UndecidedClause("delivery of the signal (buffered channel of size 1; a second completion while the first is unread would block)")
}

func isSignalChan(t types.Type) bool {
	ch, ok := t.Underlying().(*types.Chan)
	if !ok {
		return false
	}
	n, ok := ch.Elem().(*types.Named)
	return ok && n.Obj().Name() == "Signal" && n.Obj().Pkg() != nil && n.Obj().Pkg().Path() == "os"
}

func ruleExitSequence(c *Ctx, dv *dev) {
	fn := dv.fn["checkExitSequence"]
	c.Fn(shortFn(fn))
	// the loop is unrolled up to three times: sequences of length 0..3 with every combination of keys down / not down are
	// evaluated on the paths (the loop body is the same for every iteration; that it runs over the whole sequence is the
	// structural check below)
	// (helpers extracted from the function are part of it; one that walks the sequence by calling itself on the rest is
	// followed as deep as the longest sequence evaluated needs)
	paths, err := Enumerate(fn, SymConfig{Prog: c.P, MaxDepth: 6, MaxVisits: 5, MaxRecursion: 4, OnlyInline: dv.withHelpers(map[*ssa.Function]bool{})})
	if !c.Require(err == nil, "R14.2", "device.checkExitSequence", fmt.Sprint(err)) {
		return
	}
	c.Paths += len(paths)
	pos := c.P.Pos(fn.Pos())
	sigint, _ := c.P.constValue("syscall", "SIGINT")
	for _, p := range paths {
		for _, e := range p.Effects {
			switch e.Kind {
			case "mapset", "mapdel":
				c.Bad("R14.2", "device.checkExitSequence/effects", pos, "unexpected state change "+e.String())
				return
			case "store":
				if !e.Local {
					c.Bad("R14.2", "device.checkExitSequence/effects", pos, "unexpected state change "+e.String())
					return
				}
			}
		}
	}
	type outcome struct {
		cases int
		bad   string
	}
	res := map[string]*outcome{}
	note := func(k, bad string) {
		if res[k] == nil {
			res[k] = &outcome{}
		}
		res[k].cases++
		if bad != "" && res[k].bad == "" {
			res[k].bad = bad
		}
	}
	for L := 0; L <= 3; L++ {
		for mask := 0; mask < 1<<L; mask++ {
			present := func(i int64) bool { return mask&(1<<uint(i)) != 0 }
			all := L > 0
			desc := fmt.Sprintf("sequence of %d key(s), down:", L)
			for i := 0; i < L; i++ {
				if !present(int64(i)) {
					all = false
				}
				desc += fmt.Sprintf(" %v", present(int64(i)))
			}
			// evaluation of a term under this valuation
			var outOfRange bool
			var eval func(t *Term) (int64, bool)
			eval = func(t *Term) (int64, bool) {
				env := map[string]int64{}
				ok := true
				t.Walk(func(x *Term) bool {
					switch {
					case x.Op == "len" && isSeqView(x.Args[0]):
						off, _ := seqOffset(x.Args[0])
						if off > int64(L) {
							outOfRange, ok = true, false // the sequence sliced beyond its end
							return false
						}
						env[x.String()] = int64(L) - off
						return false
					case (x.Op == "lookupok" || x.Op == "lookup") && dv.isFieldLoad(x.Args[0], "keyTracker"):
						k := x.Args[1].StripConv()
						if !(k.Op == "load" && k.Args[0].Op == "indexaddr" && isSeqView(k.Args[0].Args[0])) {
							ok = false
							return false
						}
						off, _ := seqOffset(k.Args[0].Args[0])
						idx, okI := eval(k.Args[0].Args[1])
						if !okI {
							ok = false
							return false
						}
						if off > int64(L) || idx < 0 {
							outOfRange, ok = true, false
							return false
						}
						idx += off
						if idx < 0 || idx >= int64(L) {
							outOfRange = true
							ok = false
							return false
						}
						if x.Op == "lookupok" {
							if present(idx) {
								env[x.String()] = 1
							} else {
								env[x.String()] = 0
							}
						}
						return false
					}
					return true
				})
				if !ok {
					return 0, false
				}
				return evalTerm(t, env)
			}
			var match []*Path
			undecided := ""
			for _, p := range paths {
				consistent := true
				for _, a := range p.Atoms {
					v, ok := eval(a.Cond)
					if !ok {
						if !outOfRange {
							undecided = "condition " + a.Cond.String() + " cannot be evaluated"
						}
						consistent = false
						break
					}
					if (v != 0) != a.Taken {
						consistent = false
						break
					}
				}
				if consistent {
					match = append(match, p)
				}
			}
			key := "device.checkExitSequence/signal-iff-every-key-of-a-non-empty-sequence-is-down"
			switch {
			case len(match) == 0 && undecided != "":
				c.Undec("R14.2", key, pos, undecided)
				return
			case len(match) != 1:
				note(key, fmt.Sprintf("%s: %d consistent paths (expected one)", desc, len(match)))
				continue
			}
			p := match[0]
			if p.End != "return" || len(p.Ret) != 1 {
				note(key, desc+": path ends with "+p.End)
				continue
			}
			sends := 0
			bad := ""
			for _, e := range p.Effects {
				if e.Kind != "send" {
					continue
				}
				sends++
				if !dv.isFieldLoad(e.Args[0], "sigs") {
					bad = "a send on something other than Device.sigs"
				} else if v, ok := e.Args[1].StripConv().IsConst(); !ok || sigint == nil || !constant.Compare(v, token.EQL, sigint) {
					// os.Interrupt is the same signal by definition (`var Interrupt Signal = syscall.SIGINT`)
					if t := e.Args[1].StripConv(); !(t.Op == "load" && t.Args[0].Op == "global" && t.Args[0].Obj != nil && t.Args[0].Obj.Pkg() != nil && t.Args[0].Obj.Pkg().Path() == "os" && t.Args[0].Obj.Name() == "Interrupt") {
						bad = "the value sent is not syscall.SIGINT"
					}
				}
			}
			ret, okR := eval(p.Ret[0])
			switch {
			case bad != "":
			case !okR:
				bad = "the result " + p.Ret[0].String() + " cannot be evaluated"
			case all && sends != 1:
				bad = fmt.Sprintf("every key of the sequence is down but the signal is raised %d time(s)", sends)
			case !all && sends != 0:
				bad = "the signal is raised although not every key of the sequence is down (or the sequence is empty)"
			case (ret != 0) != all:
				bad = fmt.Sprintf("the reported result is %v, the signal was raised: %v (the completing press must be swallowed exactly when the signal is raised)", ret != 0, all)
			}
			if bad != "" {
				bad = desc + ": " + bad
			}
			note(key, bad)
		}
	}
	for _, k := range sortedKeys(res) {
		if res[k].bad != "" {
			c.Bad("R14.2", k, pos, res[k].bad)
		} else {
			c.OK("R14.2", k, pos, fmt.Sprintf("%d valuation(s) (sequence lengths 0..3, every combination of keys down): signal and result as specified", res[k].cases))
		}
	}
	// the loop covers the whole sequence: index starts at 0, steps by 1, bounded by len(seq)
	okLoop := false
	for _, b := range fn.Blocks {
		for _, in := range b.Instrs {
			phi, ok := in.(*ssa.Phi)
			if !ok || len(phi.Edges) < 2 {
				continue
			}
			// one constant start value, every other edge (one per way back to the loop head) the same increment
			var init *ssa.Const
			var step *ssa.BinOp
			uniform := true
			for _, e := range phi.Edges {
				switch x := e.(type) {
				case *ssa.Const:
					if init != nil && init != x {
						uniform = false
					}
					init = x
				case *ssa.BinOp:
					if step != nil && step != x {
						uniform = false
					}
					step = x
				default:
					uniform = false
				}
			}
			if !uniform || init == nil || step == nil || step.Op != token.ADD || step.X != phi {
				continue
			}
			if k, ok := step.Y.(*ssa.Const); !ok || k.Int64() != 1 {
				continue
			}
			// go/ssa rotates range loops: phi starts at -1 and the incremented value is compared
			for _, r := range *step.Referrers() {
				if bo, ok := r.(*ssa.BinOp); ok && bo.Op == token.LSS && bo.X == step && init.Int64() == -1 {
					if call, ok := bo.Y.(*ssa.Call); ok {
						if bi, ok := call.Call.Value.(*ssa.Builtin); ok && bi.Name() == "len" {
							okLoop = true
						}
					}
				}
			}
			for _, r := range *phi.Referrers() {
				if bo, ok := r.(*ssa.BinOp); ok && bo.Op == token.LSS && bo.X == phi && init.Int64() == 0 {
					if call, ok := bo.Y.(*ssa.Call); ok {
						if bi, ok := call.Call.Value.(*ssa.Builtin); ok && bi.Name() == "len" {
							okLoop = true
						}
					}
				}
			}
		}
	}
	if !okLoop {
		okLoop = walksByRecursion(c, fn, dv)
	}
	c.Check(okLoop, "R14.2", "device.checkExitSequence/loop-covers-sequence", pos, "index loop 0..len(sequence)-1 in steps of 1", "no loop over the whole exit sequence found (index from 0 in steps of 1 up to len)")
}

func ruleKeyTrackerProtocol(c *Ctx, dv *dev) {
	paths, err := keyHandlerPaths(c, dv)
	if !c.Require(err == nil, "R14.1", "device.handleKEYEvent", fmt.Sprint(err)) {
		return
	}
	fn := dv.fn["handleKEYEvent"]
	pos := c.P.Pos(fn.Pos())
	ces := dv.fn["checkExitSequence"]
	bad := map[string]string{}
	cnt := map[string]int{}
	for _, p := range paths {
		if p.End == "cut" {
			continue
		}
		press := valueConsistent(p, 1) && !valueConsistent(p, 0)
		nonPress := !valueConsistent(p, 1)
		idxSet, idxDel, idxCheck, idxSig := -1, -1, -1, -1
		for i, e := range p.Effects {
			switch {
			case e.Kind == "mapset" && dv.isFieldLoad(e.Args[0], "keyTracker") && isEventCode(e.Args[1]):
				idxSet = i
			case e.Kind == "mapdel" && dv.isFieldLoad(e.Args[0], "keyTracker") && isEventCode(e.Args[1]):
				idxDel = i
			case e.Kind == "call" && e.Callee == ces:
				idxCheck = i
			case e.Kind == "send" && dv.isFieldLoad(e.Args[0], "sigs"):
				idxSig = i
			}
		}
		if press {
			k := "device.handleKEYEvent/press:insert-before-check"
			cnt[k]++
			if idxSet < 0 || idxCheck < 0 || idxSet > idxCheck {
				bad[k] = "a press path does not insert the key into keyTracker before checkExitSequence (the completing key itself would not count)"
			}
			if idxDel >= 0 {
				bad[k] = "a press path deletes the key from keyTracker"
			}
			// what is recorded as down is the key of the event and nothing else: an entry made for another code (a modifier's
			// left/right twin) is not removed by that code's release and counts as held for ever
			for _, e := range p.Effects {
				if (e.Kind == "mapset" || e.Kind == "mapdel") && dv.isFieldLoad(e.Args[0], "keyTracker") && !isEventCode(e.Args[1]) {
					bad[k] = "a key event changes the keyTracker entry of another key (" + truncate(e.Args[1].String(), 80) + "): its own release will not undo it"
				}
			}
		} else if nonPress {
			for _, e := range p.Effects {
				if (e.Kind == "mapset" || e.Kind == "mapdel") && dv.isFieldLoad(e.Args[0], "keyTracker") && !isEventCode(e.Args[1]) {
					bad["device.handleKEYEvent/release:delete-no-check"] = "a key event changes the keyTracker entry of another key (" + truncate(e.Args[1].String(), 80) + ")"
				}
			}
			k := "device.handleKEYEvent/release:delete-no-check"
			cnt[k]++
			if idxDel < 0 {
				bad[k] = "a non-press path does not delete the key from keyTracker (a released key would still count as down)"
			}
			if idxCheck >= 0 {
				bad[k] = "the exit sequence is checked on a non-press event"
			}
		}
		if idxSig >= 0 {
			// R14.3 swallowed: nothing after the signal
			k := "device.handleKEYEvent/completing-press-swallowed"
			cnt[k]++
			for _, e := range p.Effects[idxSig+1:] {
				switch e.Kind {
				case "call":
					if e.Callee != nil && c.P.OwnedFunc(e.Callee) && !strings.HasSuffix(e.Callee.Name(), "logFields") {
						bad[k] = "after raising the signal the handler still calls " + e.Callee.Name()
					}
					if e.Callee == nil && e.Method == "" {
						bad[k] = "after raising the signal the handler still makes a dynamic call"
					}
				case "mapset", "mapdel", "send":
					bad[k] = "after raising the signal the handler still performs " + e.String()
				case "store":
					if !e.Local {
						bad[k] = "after raising the signal the handler still performs " + e.String()
					}
				}
			}
		} else if press {
			// R14.4 nothing else swallowed
			isAction, isNote, lookedUp := false, false, false
			for _, a := range p.Atoms {
				cnd, taken := a.Cond, a.Taken
				for cnd.Op == "unop" {
					cnd, taken = cnd.Args[0], !taken
				}
				if cnd.Op == "lookupok" && (cnd.Args[0].LoadsField(dv.cfgField["ActionMapping"]) || cnd.Args[0].LoadsField(dv.fields["mapping"])) {
					lookedUp = true
				}
				if cnd.Op == "lookupok" && taken {
					if cnd.Args[0].LoadsField(dv.cfgField["ActionMapping"]) {
						isAction = true
					} else if cnd.Args[0].LoadsField(dv.fields["mapping"]) {
						isNote = true
					}
				}
			}
			k := "device.handleKEYEvent/other-presses-not-swallowed"
			if !lookedUp && p.End == "return" {
				// a press that returns before the key was looked up at all (and is not the completing press): a filter in front
				// of the dispatch - "this key is already down" judged by a table keyed differently from the note tracker - drops
				// the press of a second holder
				cnt[k]++
				bad[k] = "a key press returns before the key is looked up in the action and note mappings, without completing the exit sequence: the press is dropped (" + atomsString(p) + ")"
			} else if isAction {
				cnt[k]++
				found := false
				for _, e := range p.Effects {
					if e.Kind == "mapset" && dv.isFieldLoad(e.Args[0], "actionTracker") {
						found = true
					}
				}
				if !found {
					bad[k] = "an action key press that does not complete the exit sequence is swallowed"
				}
			} else if isNote {
				cnt[k]++
				if len(p.Calls(dv.fn["NoteOn"])) != 1 {
					bad[k] = "a note key press that does not complete the exit sequence does not reach NoteOn"
				}
			}
		}
	}
	for _, k := range []string{"device.handleKEYEvent/press:insert-before-check", "device.handleKEYEvent/release:delete-no-check"} {
		if bad[k] != "" || cnt[k] == 0 {
			c.Bad("R14.1", k, pos, bad[k]+fmt.Sprintf(" (%d paths)", cnt[k]))
		} else {
			c.OK("R14.1", k, pos, fmt.Sprintf("%d path(s)", cnt[k]))
		}
	}
	k := "device.handleKEYEvent/completing-press-swallowed"
	if bad[k] != "" || cnt[k] == 0 {
		c.Bad("R14.3", k, pos, bad[k]+fmt.Sprintf(" (%d paths)", cnt[k]))
	} else {
		c.OK("R14.3", k, pos, fmt.Sprintf("%d path(s): return right after the signal, no note, no action, no tracker write", cnt[k]))
	}
	k = "device.handleKEYEvent/other-presses-not-swallowed"
	if bad[k] != "" || cnt[k] == 0 {
		c.Bad("R14.4", k, pos, bad[k]+fmt.Sprintf(" (%d paths)", cnt[k]))
	} else {
		c.OK("R14.4", k, pos, fmt.Sprintf("%d press path(s) without completion proceed to NoteOn / action handling", cnt[k]))
	}
}

// ruleExternalResetInPlace: the panic action does not replace the external-note tracker: then it must empty it in place for
// ALL channels - every inner set is replaced by a fresh one, cleared, or emptied key by key, under a key that runs over all
// channels (a counted loop 0..15 or a range over the tracker itself), while externalTrackerMutex is held.
func ruleExternalResetInPlace(c *Ctx, dv *dev, fn *ssa.Function, rule string) {
	key := "device.Panic/external-highlight-reset"
	pos := c.P.Pos(fn.Pos())
	field := dv.fields["externalNoteTracker"]
	allChannels := func(k ssa.Value) bool {
		for i := 0; i < 3; i++ {
			if cv, ok := k.(*ssa.Convert); ok {
				k = cv.X
			}
		}
		if lo, hi, ok := countedLoopRange(k); ok && lo == 0 && hi == 15 {
			return true
		}
		// the key of a range over the tracker
		if ex, ok := k.(*ssa.Extract); ok && ex.Index == 1 {
			if nx, ok := ex.Tuple.(*ssa.Next); ok {
				if r, ok := nx.Iter.(*ssa.Range); ok && derivesFromField(r.X, field, map[ssa.Value]bool{}) {
					if _, isLookup := r.X.(*ssa.Lookup); !isLookup {
						return true
					}
				}
			}
		}
		return false
	}
	innerOfAll := func(m ssa.Value) bool { // m = tracker[k] with k over all channels, or the value of a range over the tracker
		switch x := m.(type) {
		case *ssa.Lookup:
			return derivesFromField(x.X, field, map[ssa.Value]bool{}) && allChannels(x.Index)
		case *ssa.Extract:
			if x.Index == 2 {
				if nx, ok := x.Tuple.(*ssa.Next); ok {
					if r, ok := nx.Iter.(*ssa.Range); ok && derivesFromField(r.X, field, map[ssa.Value]bool{}) {
						_, isLookup := r.X.(*ssa.Lookup)
						return !isLookup
					}
				}
			}
		}
		return false
	}
	var at ssa.Instruction
	for _, b := range fn.Blocks {
		for _, in := range b.Instrs {
			switch x := in.(type) {
			case *ssa.MapUpdate:
				if _, isMk := x.Value.(*ssa.MakeMap); isMk && derivesFromField(x.Map, field, map[ssa.Value]bool{}) && allChannels(x.Key) {
					if _, inner := x.Map.(*ssa.Lookup); !inner {
						at = x
					}
				}
			case *ssa.Call:
				bi, ok := x.Call.Value.(*ssa.Builtin)
				if !ok || len(x.Call.Args) == 0 {
					continue
				}
				switch bi.Name() {
				case "clear":
					if innerOfAll(x.Call.Args[0]) {
						at = x
					}
				case "delete":
					// delete(inner, note) inside a range over that same inner set
					if len(x.Call.Args) == 2 && innerOfAll(x.Call.Args[0]) {
						if ex, ok := x.Call.Args[1].(*ssa.Extract); ok && ex.Index == 1 {
							if nx, ok := ex.Tuple.(*ssa.Next); ok {
								if r, ok := nx.Iter.(*ssa.Range); ok && innerOfAll(r.X) {
									at = x
								}
							}
						}
					}
				}
			}
		}
	}
	if at == nil {
		c.Bad(rule, key, pos, "the panic action neither replaces the external-note tracker by a fresh 16-channel map nor empties the sets of all 16 channels in place: highlights of notes received on the channels it skips survive the panic")
		return
	}
	if !heldAt(at, dv.fields["externalTrackerMutex"]) {
		c.Bad(rule, key, c.P.Pos(at.Pos()), "the external-note tracker is emptied without externalTrackerMutex held")
		return
	}
	c.OK(rule, key, c.P.Pos(at.Pos()), "the sets of all channels are emptied in place while externalTrackerMutex is held")
}

// dominatesAllReturns: block b is executed on every path of fn that returns normally.
func dominatesAllReturns(b *ssa.BasicBlock, fn *ssa.Function) bool {
	n := 0
	for _, x := range fn.Blocks {
		if _, ok := x.Instrs[len(x.Instrs)-1].(*ssa.Return); ok && x != fn.Recover {
			n++
			if !b.Dominates(x) {
				return false
			}
		}
	}
	return n > 0
}

// panicBurstUnrolled: see checkC13.
func panicBurstUnrolled(c *Ctx, dv *dev, fn *ssa.Function) (bool, string) {
	paths, err := Enumerate(fn, SymConfig{Prog: c.P, MaxDepth: 2, Collapse: true, MaxVisits: 140, MaxPaths: 64})
	if err != nil || len(paths) == 0 {
		return false, ""
	}
	allNotesOff, _ := c.P.constValue(pkgMidi, "AllNotesOff")
	an, _ := constant.Int64Val(allNotesOff)
	n := 0
	for _, p := range paths {
		if p.End == "cut" {
			return false, ""
		}
		if p.End != "return" {
			continue
		}
		n++
		cc := 0
		seen := map[int64]int{}
		for _, e := range p.Effects {
			if e.Kind != "send" {
				continue
			}
			if !dv.isFieldLoad(e.Args[0], "outputEvents") {
				return false, ""
			}
			ev := decodeEvent(e.Args[1])
			if !ev.ok || ev.Channel == nil || !dv.isFieldLoad(ev.Channel.StripConv(), "channel") {
				return false, ""
			}
			b1, ok1 := ev.B1.StripConv().IsIntConst()
			b2, ok2 := ev.B2.StripConv().IsIntConst()
			if !ok1 || !ok2 || b2 != 0 {
				return false, ""
			}
			switch ev.Kind {
			case midiCC:
				if b1 != an {
					return false, ""
				}
				cc++
			case midiNoteOff:
				seen[b1]++
			default:
				return false, ""
			}
		}
		if cc != 1 || len(seen) != 128 {
			return false, ""
		}
		for k := int64(0); k < 128; k++ {
			if seen[k] != 1 {
				return false, ""
			}
		}
	}
	if n == 0 {
		return false, ""
	}
	return true, fmt.Sprintf("%d returning path(s), loops unrolled completely: exactly ControlChange(current channel, 123, 0) and Note Off(current channel, n, 0) for n = 0..127, once each", n)
}

// seqOffset: t is the configured exit sequence or a tail of it (`seq[k:]`, nested): how many leading keys were dropped.
func seqOffset(t *Term) (int64, bool) {
	t = t.StripConv()
	if t.Op == "slice" && len(t.Args) == 4 {
		for _, hi := range t.Args[2:] {
			if !(hi.Op == "const" && hi.Aux == "_") {
				return 0, false
			}
		}
		lo := int64(0)
		if !(t.Args[1].Op == "const" && t.Args[1].Aux == "_") {
			k, ok := t.Args[1].IsIntConst()
			if !ok || k < 0 {
				return 0, false
			}
			lo = k
		}
		inner, ok := seqOffset(t.Args[0])
		return inner + lo, ok
	}
	return 0, strings.HasSuffix(t.String(), ".ExitSequence")
}

func isSeqView(t *Term) bool { _, ok := seqOffset(t); return ok }

// walksByRecursion: the sequence is examined by a helper that looks at the first key of the list it is given and calls
// itself on the rest (`keys[1:]`) - every key of the sequence is reached, as by a loop from 0 in steps of 1.
func walksByRecursion(c *Ctx, fn *ssa.Function, dv *dev) bool {
	for h := range dv.newHelpers() {
		var list *ssa.Parameter
		for _, prm := range h.Params {
			if _, isSlice := prm.Type().Underlying().(*types.Slice); isSlice {
				if list != nil {
					list = nil
					break
				}
				list = prm
			}
		}
		if list == nil {
			continue
		}
		recursive, okShape := false, true
		for _, b := range h.Blocks {
			for _, in := range b.Instrs {
				switch x := in.(type) {
				case *ssa.Call:
					if x.Call.StaticCallee() != h {
						continue
					}
					recursive = true
					idx := paramIndex(list)
					if recv := h.Signature.Recv(); recv == nil && idx >= len(x.Call.Args) {
						okShape = false
						continue
					}
					sl, isSl := x.Call.Args[idx].(*ssa.Slice)
					if !isSl || sl.X != ssa.Value(list) || sl.High != nil || sl.Max != nil {
						okShape = false
						continue
					}
					if k, isK := sl.Low.(*ssa.Const); !isK || k.Int64() != 1 {
						okShape = false
					}
				case *ssa.IndexAddr:
					if x.X == ssa.Value(list) {
						if k, isK := x.Index.(*ssa.Const); !isK || k.Int64() != 0 {
							okShape = false // looks at something else than the first key of what it was given
						}
					}
				}
			}
		}
		if !recursive || !okShape {
			continue
		}
		// the function hands the whole sequence to the helper
		for _, b := range fn.Blocks {
			for _, in := range b.Instrs {
				if call, ok := in.(*ssa.Call); ok && call.Call.StaticCallee() == h {
					if a := NewFnView(c.P, fn).Term(call.Call.Args[paramIndex(list)]); strings.HasSuffix(a.String(), ".ExitSequence") {
						return true
					}
				}
			}
		}
	}
	return false
}
